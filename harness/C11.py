"""C11 — power and energy agree across train, consist and locomotive levels."""
from traincommon import *  # noqa
import C14

KINDS = {"C": "conv", "B": "bel", "H": "hyb"}


def consist_tmpl(comp, n=2):
    locos = [loco_tmpl(KINDS[ch], f"l{j}_", n) for j, ch in enumerate(comp)]
    return {"loco_vec": locos, "pdct": Variant("RESGreedy", {}), "assert_limits": True, "state": auto_state("ConsistState", "cs_"), "save_interval": None, "n_res_equipped": NONE_RAW}


CONSIST_STEP = lambda: [  # what ConsistSimulation::solve_step / the train simulations drive
    Call("Consist::set_pwr_aux", [("Option<bool>", True)]),
    Call("<Consist as LocoTrait>::set_cur_pwr_max_out", [("Option<si::Power>", None), ("si::Time", Sym("dt"))]),
    Call("Consist::solve_energy_consumption", [("si::Power", Sym("req")), ("si::Time", Sym("dt")), ("Option<bool>", True)]),
]


def consist_rollup_case(comp, policy="RESGreedy", n=2, prop="C11"):
    N = len(comp)
    t = consist_tmpl(comp, n)
    t["pdct"] = Variant(policy, {})

    def assume(S):
        d = [("dt > 0", S["dt"] > 0)]
        for j, ch in enumerate(comp):
            d += loco_domain(S, KINDS[ch], f"l{j}_", n)
            if ch in "CH":
                d.append((f"l{j}: previous shaft power >= 0", S[f"l{j}_fc_s_pwr_brake"] >= 0))
        return d

    def sum_over(c, f):
        tot = 0
        for j, ch in enumerate(comp):
            tot = tot + f(c, j, ch)
        return tot

    P = lambda j, ch: f"loco_vec.{j}.loco_type." + {"C": "ConventionalLoco.", "B": "BatteryElectricLoco.", "H": "HybridLoco."}[ch]
    dt = lambda c: c.S["dt"]
    claims = [
        Claim("consist pwr_out_req = the demand passed in", lambda c: EQ(c.post["state.pwr_out_req"], c.S["req"])),
        Claim("consist pwr_out = sum of locomotive pwr_out", lambda c: EQ(c.post["state.pwr_out"], sum_over(c, lambda c, j, ch: c.post[f"loco_vec.{j}.state.pwr_out"])), role="consist_pwr_out_sum"),
        Claim("consist pwr_fuel = sum of engine fuel power", lambda c: EQ(c.post["state.pwr_fuel"], sum_over(c, lambda c, j, ch: c.post[P(j, ch) + "fc.state.pwr_fuel"] if ch in "CH" else 0)), role="consist_pwr_fuel_sum"),
        Claim("consist pwr_reves = sum of battery chemical power", lambda c: EQ(c.post["state.pwr_reves"], sum_over(c, lambda c, j, ch: c.post[P(j, ch) + "res.state.pwr_out_chemical"] if ch in "BH" else 0)), role="consist_pwr_reves_sum"),
        Claim("accepted step: delivered power equals the demand (code's almost_eq)", lambda c: LE(ABS(c.post["state.pwr_out"] - c.S["req"]), eps8(c.S["req"]) * MAX(1, ABS(c.post["state.pwr_out"] + c.S["req"])))),
        Claim("consist energy_out accumulates pwr_out * dt", lambda c: EQ(c.post["state.energy_out"], c.pre["state.energy_out"] + c.post["state.pwr_out"] * dt(c))),
        Claim("consist energy_fuel accumulates pwr_fuel * dt", lambda c: EQ(c.post["state.energy_fuel"], c.pre["state.energy_fuel"] + c.post["state.pwr_fuel"] * dt(c))),
        Claim("consist energy_res accumulates pwr_reves * dt", lambda c: EQ(c.post["state.energy_res"], c.pre["state.energy_res"] + c.post["state.pwr_reves"] * dt(c))),
        Claim("positive / negative wheel energy split on the sign of pwr_out", lambda c: AND(
            EQ(c.post["state.energy_out_pos"], c.pre["state.energy_out_pos"] + IF(XLE(0, c.post["state.pwr_out"]), c.post["state.pwr_out"] * dt(c), 0)),
            EQ(c.post["state.energy_out_neg"], c.pre["state.energy_out_neg"] - IF(XLE(0, c.post["state.pwr_out"]), 0, c.post["state.pwr_out"] * dt(c))))),
        Claim("each locomotive's pwr_out is what its drivetrain delivers at the wheels (traction minus dynamic braking)", lambda c: AND(*[
            EQ(c.post[f"loco_vec.{j}.state.pwr_out"], c.post[P(j, ch) + "edrv.state.pwr_mech_prop_out"] - c.post[P(j, ch) + "edrv.state.pwr_mech_dyn_brake"]) for j, ch in enumerate(comp)]), role="loco_pwr_out_is_drivetrain_out"),
        Claim("each locomotive's energy_out accumulates its own pwr_out * dt", lambda c: AND(*[EQ(c.post[f"loco_vec.{j}.state.energy_out"], c.pre[f"loco_vec.{j}.state.energy_out"] + c.post[f"loco_vec.{j}.state.pwr_out"] * dt(c)) for j in range(N)])),
        Claim("no_panic", None, when="nopanic"),
    ]
    return Case(f"consist_rollup_{comp}_{policy}", prop, "Consist", t, CONSIST_STEP(), assume, claims,
                bounds={"composition": comp, "policy": policy, "efficiency map points": n, "steps": "1 solve_step sequence from an arbitrary pre-state"},
                stubs={"utils::interp1d": interp1d_contract, "utils::interp3d": interp3d_contract}, max_paths=60000, timeout_ms=300000, check_side=False,
                notes=["efficiency-map interpolations replaced by their contracts (C08); derating tables executed exactly",
                       "NaN/inf side conditions are not re-checked here (they are discharged by the component and locomotive harnesses of C01/C08/C09)"])


def train_to_consist_case(i, npts):
    base = C14.step_case(i, npts)
    dtr = lambda c: c.S[f"t{i}"] - c.S[f"t{i-1}"]
    claims = [
        Claim("the consist is asked for exactly the wheel power the train model computed", lambda c: EQ(c.post["loco_con.state.pwr_out_req"], c.post["state.pwr_whl_out"]), role="demand_handoff"),
        Claim("the locomotive is asked for what the consist assigned", lambda c: EQ(c.post["loco_con.state.pwr_out"], c.post["loco_con.loco_vec.0.state.pwr_out"])),
        Claim("positive demand: the consist reports delivering the train's wheel power", lambda c: IMP(XGT(c.post["state.pwr_whl_out"], 0), EQ(c.post["loco_con.state.pwr_out"], c.post["state.pwr_whl_out"])), role="delivered_equals_demand"),
        Claim("train and consist accumulate with the same step size", lambda c: AND(
            EQ(c.post["state.energy_whl_out"], c.pre["state.energy_whl_out"] + c.post["state.pwr_whl_out"] * dtr(c)),
            EQ(c.post["loco_con.state.energy_out"], c.pre["loco_con.state.energy_out"] + c.post["loco_con.state.pwr_out"] * dtr(c)),
            EQ(c.post["loco_con.loco_vec.0.state.energy_out"], c.pre["loco_con.loco_vec.0.state.energy_out"] + c.post["loco_con.loco_vec.0.state.pwr_out"] * dtr(c))), role="same_dt_all_levels"),
        Claim("no_panic", None, when="nopanic"),
    ]
    return Case(f"set_speed_train_to_consist_i{i}_of{npts}", "C11", "SetSpeedTrainSim", base.recv, base.calls, base.assume, claims, bounds=base.bounds,
                notes=list(base.notes) + ["one-DummyLoco consist: braking demand is not absorbed by a DummyLoco, so delivered = demand is claimed for traction only"], max_paths=20000, timeout_ms=60000)


def consist_getters_case(comp):
    t = consist_tmpl(comp)
    P = lambda j, ch: f"loco_vec.{j}.loco_type." + {"C": "ConventionalLoco.", "B": "BatteryElectricLoco.", "H": "HybridLoco."}[ch]

    def fuel(c):
        tot = 0
        for j, ch in enumerate(comp):
            if ch in "CH":
                tot = tot + c.pre[P(j, ch) + "fc.state.energy_fuel"]
        return tot

    def res(c):
        tot = 0
        for j, ch in enumerate(comp):
            if ch in "BH":
                tot = tot + c.pre[P(j, ch) + "res.state.energy_out_chemical"]
        return tot
    c1 = Case(f"consist_get_energy_fuel_{comp}", "C11", "Consist", t, [Call("Consist::get_energy_fuel", [])], None,
              [Claim("trip fuel energy = sum of the engines' cumulative fuel energy", lambda c: EQ(c.retval(), fuel(c)), when="ret", role="fuel_total"), Claim("no_panic", None, when="nopanic")], bounds={"composition": comp})
    c2 = Case(f"consist_get_net_energy_res_{comp}", "C11", "Consist", t, [Call("Consist::get_net_energy_res", [])], None,
              [Claim("trip net battery energy = sum of the batteries' cumulative chemical energy", lambda c: EQ(c.retval(), res(c)), when="ret", role="res_total"), Claim("no_panic", None, when="nopanic")], bounds={"composition": comp})
    return [c1, c2]


def trip_getters_cases(days):
    """SpeedLimitTrainSim trip-level outputs: the run totals scaled only by the documented annualisation factor
    (365.25 / simulation_days, 365.25 when the days are not given, 1 when not annualising)"""
    comp = "CB"
    recv = slts_tmpl(consist_tmpl(comp))
    recv["simulation_days"] = Sym("days", "int") if days else None
    P = lambda j, ch: f"loco_con.loco_vec.{j}.loco_type." + {"C": "ConventionalLoco.", "B": "BatteryElectricLoco."}[ch]

    def assume(S):
        return [("simulation_days >= 1", z3.And(S["days"] >= 1, S["days"] <= 100000))] if days else []

    def factor(c):
        ann = c.S["annualize"]
        from values import is_z3 as _isz
        sym = any(_isz(v) for v in c.S.values())
        yr = z3.RealVal("365.25") if sym else 365.25
        full = (yr / z3.ToReal(c.S["days"]) if sym else yr / c.S["days"]) if days else yr
        return IF(ann, full, 1)

    fuel = lambda c: sum(c.pre[P(j, ch) + "fc.state.energy_fuel"] for j, ch in enumerate(comp) if ch == "C")
    res = lambda c: sum(c.pre[P(j, ch) + "res.state.energy_out_chemical"] for j, ch in enumerate(comp) if ch == "B")
    km = lambda c: c.pre["state.total_dist"] / 1000
    specs = [
        ("get_kilometers", lambda c: km(c) * factor(c), "trip distance = total distance [km] * annualisation factor", "trip_km"),
        ("get_megagram_kilometers", lambda c: c.pre["state.mass_freight"] / 1000 * km(c) * factor(c), "trip tonne-km = freight mass [Mg] * total distance [km] * annualisation factor", "trip_tonne_km"),
        ("get_energy_fuel", lambda c: fuel(c) * factor(c), "trip fuel energy = sum of the engines' cumulative fuel energy * annualisation factor", "trip_fuel"),
        ("get_net_energy_res", lambda c: res(c) * factor(c), "trip net battery energy = sum of the batteries' cumulative chemical energy * annualisation factor", "trip_res"),
    ]
    out = []
    for (fn, exp, text, role) in specs:
        out.append(Case(f"trip_{fn}_{'days' if days else 'nodays'}", "C11", "SpeedLimitTrainSim", recv, [Call(f"SpeedLimitTrainSim::{fn}", [("bool", Sym("annualize", "bool"))])], assume,
                        [Claim(text, lambda c, exp=exp: EQ(c.retval(), exp(c)), when="ret", role=role), Claim("no_panic", None, when="nopanic")],
                        bounds={"consist": comp, "simulation_days": "Some(d), d symbolic >= 1" if days else "None", "annualize": "symbolic bool"}, check_side=False))
    return out


def speed_limit_wheel_power_case(dtv=1, mass=1000):
    """SpeedLimitTrainSim::solve_required_pwr: the wheel power the train demands stays inside what the consist published, and the
    cumulative wheel energy and its positive / negative parts are advanced by exactly that power"""
    import slstep
    recv = slstep.sl_step_recv(True, dtv, mass)
    dt = lambda c: c.pre["state.dt"]
    p1 = lambda c: c.post["state.pwr_whl_out"]
    pos_max = lambda c: MIN(c.S["cs_pwr_out_max"], MAX(0, c.pre["state.pwr_whl_out"] + c.S["cs_pwr_rate_out_max"] * dt(c)))
    claims = [
        Claim("wheel power demanded <= the consist's published traction limit (and its ramp limit)", lambda c: LE(p1(c), pos_max(c)), when="ok", role="sl_pwr_le_pos_max"),
        Claim("braking power demanded from the consist <= its published dynamic braking limit", lambda c: LE(-p1(c), MAX(c.S["cs_pwr_dyn_brake_max"], 0)), when="ok", role="sl_pwr_ge_neg_max"),
        Claim("cumulative wheel energy advances by wheel power * step size", lambda c: EQ(c.post["state.energy_whl_out"], c.pre["state.energy_whl_out"] + p1(c) * dt(c)), when="ok", role="sl_energy_whl"),
        Claim("positive / negative parts advance by the positive / negative part of that energy",
              lambda c: AND(EQ(c.post["state.energy_whl_out_pos"], c.pre["state.energy_whl_out_pos"] + MAX(p1(c), 0) * dt(c)),
                            EQ(c.post["state.energy_whl_out_neg"], c.pre["state.energy_whl_out_neg"] + MAX(-p1(c), 0) * dt(c))), when="ok", role="sl_energy_parts"),
        Claim("no_panic", None, when="nopanic", role="sl_no_panic"),
    ]
    return Case(f"speed_limit_step_wheel_power_dt{dtv}_m{mass}".replace(".", "p"), "C11", "SpeedLimitTrainSim", recv, [Call("SpeedLimitTrainSim::solve_required_pwr", [])],
                lambda S: slstep.sl_step_domain(S, True), claims,
                bounds={"braking points": 2, "consist": "one DummyLoco", "steps": "1 from an arbitrary state (inductive)", "step size": f"{dtv} s (concrete)", "train mass": f"{mass} kg (concrete)"},
                max_paths=20000, timeout_ms=60000, check_side=False)


def m_cases(tier):
    return trip_getters_cases(True) + trip_getters_cases(False) + [speed_limit_wheel_power_case()] + _m_cases(tier)


def _m_cases(tier):
    cs = [consist_rollup_case("C"), consist_rollup_case("B"), consist_rollup_case("H"), consist_rollup_case("C", "Proportional"), train_to_consist_case(1, 2), train_to_consist_case(2, 3)]
    cs += consist_getters_case("CB") + consist_getters_case("BCB") + consist_getters_case("HC") + consist_getters_case("H")
    if tier == "thorough":
        cs += [consist_rollup_case("B", "Proportional"), consist_rollup_case("CB"), consist_rollup_case("CB", "Proportional"), consist_rollup_case("BC"), consist_rollup_case("CC")]
    return cs
