"""Shared input templates and domain assumptions for the powertrain harnesses (engine M)."""
import os
import sys

sys.path.insert(0, os.path.join(os.environ.get("NREL_ALTRIOS_VERIF_DIR", "/verif"), "mir2smt"))
import z3
from cases import Case, Call, Claim  # noqa
from tmpl import Sym, Raw, Variant, EQ, LE, GE, LT, GT, AND, OR, NOT, IMP, IF, MIN, MAX, ABS, XLE, XLT, XEQ, XGE, XGT  # noqa
from values import Seq  # noqa

import schema as _schema
from tmpl import is_quantity, INT_TYPES
SC = _schema.SrcSchema()


def auto_state(ty, p):
    """template for a *State struct: every quantity / float symbolic, counters concrete 1, bools symbolic"""
    out = {}
    for f in SC.structs[ty]:
        name = _schema.last_seg(f.ty)
        if is_quantity(f.ty):
            out[f.name] = Sym(p + f.name)
        elif name in INT_TYPES:
            out[f.name] = 1
        elif name == "bool":
            out[f.name] = Sym(p + f.name, "bool")
        else:
            raise KeyError(f"auto_state: {ty}.{f.name}: {f.ty}")
    return out


TOL = 0.001  # the code's own TOL constant (fuel_converter.rs / reversible_energy_storage.rs); checked against the MIR by C09


def R(S, n):
    return S[n]


def syms(prefix, names, sort="real"):
    return {n: Sym(prefix + n, sort) for n in names}


from fractions import Fraction as _Fr
from values import is_z3 as _is_z3
TOLQ = z3.RealVal(_Fr(0.001))  # the exact value of the f64 constant 1e-3


EPS8Q = z3.RealVal(_Fr(1e-8))  # the exact value of the f64 default epsilon of utils::almost_eq


def eps8(x=None):
    return EPS8Q if (x is None or _is_z3(x)) else 1e-8


def tol(x=None):
    """the code's TOL: exact rational in symbolic mode, the f64 itself natively"""
    return TOLQ if (x is None or _is_z3(x)) else 0.001


def almost_le_bound(lim):
    """the code's almost_le(x, lim, TOL) accepts exactly the x strictly below this"""
    t = tol(lim)
    return MAX(lim * (1 + t), lim + t)


def almost_ge_bound(lim):
    t = tol(lim)
    return MIN(lim * (1 - t), lim - t)


# ---------------------------------------------------------------- fuel converter

FC_STATE = ["pwr_out_max", "eta", "pwr_brake", "pwr_fuel", "pwr_loss", "pwr_idle_fuel", "energy_brake", "energy_fuel", "energy_loss", "energy_idle_fuel"]


def fc_tmpl(p="fc_", n=3):
    st = auto_state("FuelConverterState", p + "s_")
    return {
        "state": st,
        "mass": None,
        "specific_pwr": None,
        "pwr_out_max": Sym(p + "pwr_out_max"),
        "pwr_out_max_init": Sym(p + "pwr_out_max_init"),
        "pwr_ramp_lag": Sym(p + "pwr_ramp_lag"),
        "pwr_out_frac_interp": [Sym(f"{p}x{i}") for i in range(n)],
        "eta_interp": [Sym(f"{p}y{i}") for i in range(n)],
        "pwr_idle_fuel": Sym(p + "pwr_idle_fuel"),
        "save_interval": None,
    }


def axis_domain(S, p, n, lo=0, hi=1, xs="x", strict=True):
    out = []
    out.append((f"{p}{xs}0 >= {lo}", S[f"{p}{xs}0"] >= lo))
    for i in range(n - 1):
        out.append((f"{p}{xs}{i} < {p}{xs}{i+1}", S[f"{p}{xs}{i}"] < S[f"{p}{xs}{i+1}"]))
    if hi is not None:
        out.append((f"{p}{xs}{n-1} <= {hi}", S[f"{p}{xs}{n-1}"] <= hi))
    return out


def eta_domain(S, p, n, ys="y"):
    return [(f"0 < {p}{ys}{i} <= 1", z3.And(S[f"{p}{ys}{i}"] > 0, S[f"{p}{ys}{i}"] <= 1)) for i in range(n)]


def fc_domain(S, p="fc_", n=3):
    d = axis_domain(S, p, n) + eta_domain(S, p, n)
    d += [
        (f"{p}pwr_out_max > 0", S[p + "pwr_out_max"] > 0),
        (f"{p}pwr_idle_fuel >= 0", S[p + "pwr_idle_fuel"] >= 0),
        (f"{p}pwr_ramp_lag > 0", S[p + "pwr_ramp_lag"] > 0),
        (f"{p}pwr_out_max_init >= 0", S[p + "pwr_out_max_init"] >= 0),
    ]
    return d


# ---------------------------------------------------------------- generator

GEN_STATE = ["eta", "pwr_elec_prop_out_max", "pwr_elec_out_max", "pwr_rate_out_max", "pwr_mech_in", "pwr_elec_prop_out", "pwr_elec_aux", "pwr_loss",
             "energy_mech_in", "energy_elec_prop_out", "energy_elec_aux", "energy_loss"]


def gen_tmpl(p="gen_", n=3, in_frac="empty"):
    st = auto_state("GeneratorState", p + "s_")
    return {
        "state": st,
        "mass": None,
        "specific_pwr": None,
        "pwr_out_frac_interp": [Sym(f"{p}x{i}") for i in range(n)],
        "eta_interp": [Sym(f"{p}y{i}") for i in range(n)],
        # serde(skip): rebuilt by the code when empty
        "pwr_in_frac_interp": Raw(Seq(())),
        "pwr_out_max": Sym(p + "pwr_out_max"),
        "save_interval": None,
    }


def gen_domain(S, p="gen_", n=3):
    d = axis_domain(S, p, n) + eta_domain(S, p, n)
    d += [(f"{p}pwr_out_max > 0", S[p + "pwr_out_max"] > 0)]
    return d


def in_frac_monotone(S, p, n):
    """Generator::new / ElectricDrivetrain::new reject maps whose x/eta is not strictly increasing"""
    out = []
    for i in range(n - 1):
        out.append((f"{p}x{i}/{p}y{i} < {p}x{i+1}/{p}y{i+1}", S[f"{p}x{i}"] / S[f"{p}y{i}"] < S[f"{p}x{i+1}"] / S[f"{p}y{i+1}"]))
    return out


# ---------------------------------------------------------------- electric drivetrain

EDRV_STATE = ["eta", "pwr_mech_out_max", "pwr_mech_regen_max", "pwr_rate_out_max", "pwr_out_req", "pwr_elec_prop_in", "pwr_mech_prop_out", "pwr_mech_dyn_brake",
              "pwr_elec_dyn_brake", "pwr_loss", "energy_elec_prop_in", "energy_mech_prop_out", "energy_mech_dyn_brake", "energy_elec_dyn_brake", "energy_loss"]


def edrv_tmpl(p="edrv_", n=3):
    st = auto_state("ElectricDrivetrainState", p + "s_")
    return {
        "state": st,
        "pwr_out_frac_interp": [Sym(f"{p}x{i}") for i in range(n)],
        "eta_interp": [Sym(f"{p}y{i}") for i in range(n)],
        "pwr_in_frac_interp": Raw(Seq(())),
        "pwr_out_max": Sym(p + "pwr_out_max"),
        "save_interval": None,
    }


def edrv_domain(S, p="edrv_", n=3):
    d = axis_domain(S, p, n) + eta_domain(S, p, n)
    d += [(f"{p}pwr_out_max > 0", S[p + "pwr_out_max"] > 0),
          ]
    if p + "s_pwr_mech_regen_max" in S:
        d.append((f"{p}s_pwr_mech_regen_max >= 0 (published by set_cur_pwr_regen_max, which ensures it)", S[p + "s_pwr_mech_regen_max"] >= 0))
    return d


# ---------------------------------------------------------------- reversible energy storage

RES_STATE = ["pwr_prop_out_max", "pwr_regen_out_max", "pwr_disch_max", "pwr_charge_max", "pwr_out_electrical", "pwr_out_propulsion", "pwr_aux", "pwr_loss", "pwr_out_chemical",
             "energy_out_electrical", "energy_out_propulsion", "energy_aux", "energy_loss", "energy_out_chemical", "max_soc", "soc_hi_ramp_start", "min_soc", "soc_lo_ramp_start",
             "soc", "eta", "soh", "temperature_celsius"]


def res_tmpl(p="res_", ns=2, nc=2):
    st = auto_state("ReversibleEnergyStorageState", p + "s_")
    return {
        "state": st,
        "mass": None,
        "volume": None,
        "specific_energy": None,
        "energy_density": None,
        "eta_interp_grid": [[Sym(p + "gt0")], [Sym(f"{p}gs{i}") for i in range(ns)], [Sym(f"{p}gc{i}") for i in range(nc)]],
        "eta_interp_values": [[[Sym(f"{p}v{i}{j}") for j in range(nc)] for i in range(ns)]],
        "pwr_out_max": Sym(p + "pwr_out_max"),
        "energy_capacity": Sym(p + "energy_capacity"),
        "min_soc": Sym(p + "min_soc"),
        "max_soc": Sym(p + "max_soc"),
        "soc_hi_ramp_start": Sym(p + "soc_hi_ramp_start"),
        "soc_lo_ramp_start": Sym(p + "soc_lo_ramp_start"),
        "save_interval": None,
    }


def res_domain(S, p="res_", ns=2, nc=2):
    d = []
    for i in range(ns - 1):
        d.append((f"{p}gs{i} < {p}gs{i+1}", S[f"{p}gs{i}"] < S[f"{p}gs{i+1}"]))
    for i in range(nc - 1):
        d.append((f"{p}gc{i} < {p}gc{i+1}", S[f"{p}gc{i}"] < S[f"{p}gc{i+1}"]))
    for i in range(ns):
        for j in range(nc):
            v = S[f"{p}v{i}{j}"]
            d.append((f"0 < {p}v{i}{j} <= 1", z3.And(v > 0, v <= 1)))
    d += [
        (f"{p}pwr_out_max > 0", S[p + "pwr_out_max"] > 0),
        (f"{p}energy_capacity > 0", S[p + "energy_capacity"] > 0),
        (f"0 <= {p}min_soc < {p}soc_lo_ramp_start <= {p}soc_hi_ramp_start < {p}max_soc <= 1",
         z3.And(S[p + "min_soc"] >= 0, S[p + "min_soc"] < S[p + "soc_lo_ramp_start"], S[p + "soc_lo_ramp_start"] <= S[p + "soc_hi_ramp_start"],
                S[p + "soc_hi_ramp_start"] < S[p + "max_soc"], S[p + "max_soc"] <= 1)),
    ]
    return d


# ---------------------------------------------------------------- contract stubs (each proved by its own harness, see C08 interp cases)
from values import Enum as _Enum, Seq as _Seq, Ptr as _Ptr, to_z3 as _to_z3, is_conc as _is_conc  # noqa


def _leaves(eng, st, v):
    v = eng.deref_all(st, v)
    if isinstance(v, _Seq):
        out = []
        for e in v.elems:
            out += _leaves(eng, st, e)
        return out
    return [v]


def _minmax(vals):
    lo = hi = _to_z3(vals[0])
    for v in vals[1:]:
        v = _to_z3(v)
        lo = z3.If(v <= lo, v, lo)
        hi = z3.If(v >= hi, v, hi)
    return lo, hi


def _pin(eng, v, leaves):
    """replay preference: a constant map makes the real interpolation return exactly v"""
    if not hasattr(eng, "replay_prefs"):
        eng.replay_prefs = []
    for l in leaves:
        eng.replay_prefs.append(_to_z3(l) == v)


def interp3d_contract(eng, st, args):
    """utils::interp3d(point, grid, values) -> Ok(v), min(values) <= v <= max(values)
    (contract proved for strictly increasing axes by harness `interp3d_contract_*`)"""
    vals = _leaves(eng, st, args[2])
    lo, hi = _minmax(vals)
    v = eng.fresh("interp3d")
    st.define(z3.And(v >= lo, v <= hi))
    _pin(eng, v, vals)
    return [(st, _Enum("Result", 0, [v]))]


def interp1d_contract(eng, st, args):
    """utils::interp1d(x, xs, ys, false) -> Ok(v), min(ys) <= v <= max(ys)  (no extrapolation)
    (contract proved for strictly increasing xs by harness `interp1d_contract_*`)"""
    ys = _leaves(eng, st, args[2])
    if any(_is_conc(y) for y in ys):
        return None  # derating tables ([0, pwr_out_max]) are executed exactly; only efficiency maps use the contract
    lo, hi = _minmax(ys)
    v = eng.fresh("interp1d")
    st.define(z3.And(v >= lo, v <= hi))
    _pin(eng, v, ys)
    return [(st, _Enum("Result", 0, [v]))]


# ---------------------------------------------------------------- locomotives


def conv_tmpl(p="", n=2):
    e = edrv_tmpl(p + "edrv_", n)
    # invariant of a conventional unit: no regeneration limit is ever published (the code asserts it)
    e["state"]["pwr_mech_regen_max"] = 0
    return {"fc": fc_tmpl(p + "fc_", n), "gen": gen_tmpl(p + "gen_", n), "edrv": e}


def conv_domain(S, p="", n=2):
    d = fc_domain(S, p + "fc_", n) + gen_domain(S, p + "gen_", n) + in_frac_monotone(S, p + "gen_", n)
    d += edrv_domain(S, p + "edrv_", n) + in_frac_monotone(S, p + "edrv_", n)
    d += [(f"{p}fc_pwr_out_max_init <= {p}fc_pwr_out_max", S[p + "fc_pwr_out_max_init"] <= S[p + "fc_pwr_out_max"])]
    return d


def bel_tmpl(p="", n=2, ns=2, nc=2):
    return {"res": res_tmpl(p + "res_", ns, nc), "edrv": edrv_tmpl(p + "edrv_", n)}


def bel_domain(S, p="", n=2, ns=2, nc=2):
    return res_domain(S, p + "res_", ns, nc) + edrv_domain(S, p + "edrv_", n) + in_frac_monotone(S, p + "edrv_", n)


def hyb_tmpl(p="", n=2, ns=2, nc=2):
    """hybrid unit with a fixed fuel / battery split (fuel_res_ratio = None: the golden-section optimiser of the argmin crate is not entered)"""
    return {"fc": fc_tmpl(p + "fc_", n), "gen": gen_tmpl(p + "gen_", n), "res": res_tmpl(p + "res_", ns, nc), "edrv": edrv_tmpl(p + "edrv_", n),
            "fuel_res_split": Sym(p + "split"), "fuel_res_ratio": None, "gss_interval": None, "dt": 0, "i": 1}


def hyb_domain(S, p="", n=2, ns=2, nc=2):
    d = fc_domain(S, p + "fc_", n) + gen_domain(S, p + "gen_", n) + in_frac_monotone(S, p + "gen_", n) + res_domain(S, p + "res_", ns, nc)
    d += edrv_domain(S, p + "edrv_", n) + in_frac_monotone(S, p + "edrv_", n)
    d += [(f"{p}fc_pwr_out_max_init <= {p}fc_pwr_out_max", S[p + "fc_pwr_out_max_init"] <= S[p + "fc_pwr_out_max"]),
          (f"0 <= {p}split <= 1", z3.And(S[p + "split"] >= 0, S[p + "split"] <= 1))]
    return d


def loco_tmpl(kind, p="", n=2, assert_limits=True):
    pt = {"conv": lambda: Variant("ConventionalLoco", conv_tmpl(p, n)), "bel": lambda: Variant("BatteryElectricLoco", bel_tmpl(p, n)), "hyb": lambda: Variant("HybridLoco", hyb_tmpl(p, n))}[kind]()
    return {
        "loco_type": pt,
        "state": auto_state("LocomotiveState", p + "ls_"),
        "mass": None, "mu": None, "ballast_mass": None, "baseline_mass": None,
        "save_interval": None,
        "assert_limits": assert_limits,
        "pwr_aux_offset": Sym(p + "pwr_aux_offset"),
        "pwr_aux_traction_coeff": Sym(p + "pwr_aux_traction_coeff"),
        "force_max": Sym(p + "force_max"),
    }


def loco_domain(S, kind, p="", n=2):
    d = {"conv": conv_domain, "bel": bel_domain, "hyb": hyb_domain}[kind](S, p, n)
    d += [(f"{p}pwr_aux_offset >= 0", S[p + "pwr_aux_offset"] >= 0),
          (f"0 <= {p}pwr_aux_traction_coeff < 1", z3.And(S[p + "pwr_aux_traction_coeff"] >= 0, S[p + "pwr_aux_traction_coeff"] < 1))]
    return d


LOCO_STEP = lambda: [  # the sequence LocomotiveSimulation::solve_step drives
    Call("Locomotive::set_pwr_aux", [("Option<bool>", Sym("engine_on", "bool"))]),
    Call("Locomotive::set_cur_pwr_max_out", [("Option<si::Power>", None), ("si::Time", Sym("dt"))]),
    Call("Locomotive::solve_energy_consumption", [("si::Power", Sym("req")), ("si::Time", Sym("dt")), ("Option<bool>", Sym("engine_on", "bool"))]),
]
