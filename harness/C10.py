"""C10 — consist power split conserves demand and honours each unit's capability."""
from common import *  # noqa

KINDS = {"C": "conv", "B": "bel"}


def loco_vec_tmpl(comp, n=2):
    return [loco_tmpl(KINDS[k], f"l{i}_", n) for i, k in enumerate(comp)]


def rating(S, i):
    return S[f"l{i}_edrv_pwr_out_max"]


def split_domain(S, comp, n=2):
    """what Consist::set_cur_pwr_max_out / solve_energy_consumption establish before calling the policy
    (the aggregation code itself is checked by the consist_aggregates_* cases)"""
    d = []
    N = len(comp)
    for i, k in enumerate(comp):
        d += loco_domain(S, KINDS[k], f"l{i}_", n)
        p = f"l{i}_ls_"
        d.append((f"{p}pwr_out_max >= 0 (published traction limit non-negative)", S[p + "pwr_out_max"] >= 0))
        if k == "C":
            d.append((f"{p}pwr_regen_max == 0 (conventional unit)", S[p + "pwr_regen_max"] == 0))
        else:
            d.append((f"0 <= {p}pwr_regen_max <= drivetrain rating (set_cur_pwr_regen_max clamps)", z3.And(S[p + "pwr_regen_max"] >= 0, S[p + "pwr_regen_max"] <= rating(S, i))))
    tot = sum(S[f"l{i}_ls_pwr_out_max"] for i in range(N))
    reves = sum([S[f"l{i}_ls_pwr_out_max"] for i, k in enumerate(comp) if k == "B"] + [0])
    regen = sum(S[f"l{i}_ls_pwr_regen_max"] for i in range(N))
    db = sum(rating(S, i) for i in range(N))
    req = S["cs_pwr_out_req"]
    d += [
        ("consist pwr_out_max = sum of unit limits", S["cs_pwr_out_max"] == tot),
        ("consist pwr_out_max_reves = sum over battery units", S["cs_pwr_out_max_reves"] == reves),
        ("consist pwr_out_max_non_reves = pwr_out_max - pwr_out_max_reves", S["cs_pwr_out_max_non_reves"] == tot - reves),
        ("consist pwr_regen_max = sum of unit regen limits", S["cs_pwr_regen_max"] == regen),
        ("consist pwr_dyn_brake_max = sum of drivetrain ratings", S["cs_pwr_dyn_brake_max"] == db),
        ("demand within [-pwr_dyn_brake_max, pwr_out_max] (the consist's own ensure!s)", z3.And(-req <= db, req <= tot)),
        ("pwr_out_deficit = max(req - reves, 0)", S["cs_pwr_out_deficit"] == z3.If(req - reves >= 0, req - reves, 0)),
        ("pwr_regen_deficit = max(-req - regen_max, 0)", S["cs_pwr_regen_deficit"] == z3.If(-req - regen >= 0, -req - regen, 0)),
    ]
    return d


def split_case(comp, policy, direction, n=2):
    N = len(comp)

    def assume(S):
        d = split_domain(S, comp, n)
        d.append(("demand > 0" if direction == "pos" else "demand < 0", S["cs_pwr_out_req"] > 0 if direction == "pos" else S["cs_pwr_out_req"] < 0))
        return d

    def out(c, i):
        r = c.retval()
        return r.elems[i] if hasattr(r, "elems") else r[i]

    def total(c):
        t = out(c, 0)
        for i in range(1, N):
            t = t + out(c, i)
        return t

    claims = [Claim("sum_of_assignments=demand", lambda c: EQ(total(c), c.S["cs_pwr_out_req"]))]
    for i, k in enumerate(comp):
        if direction == "pos":
            claims.append(Claim(f"unit{i}_within_published_limit", lambda c, i=i: LE(out(c, i), c.S[f"l{i}_ls_pwr_out_max"])))
            claims.append(Claim(f"unit{i}_does_not_brake_while_consist_pushes", lambda c, i=i: GE(out(c, i), 0)))
        else:
            claims.append(Claim(f"unit{i}_braking_within_drivetrain_rating", lambda c, i=i: LE(-out(c, i), c.S[f"l{i}_edrv_pwr_out_max"]), role="braking_within_drivetrain_rating"))
            claims.append(Claim(f"unit{i}_does_not_push_while_consist_brakes", lambda c, i=i: LE(out(c, i), 0)))
            if k == "C":
                claims.append(Claim(f"unit{i}_conventional_idle_when_regen_suffices", lambda c, i=i: IMP(XEQ(c.S["cs_pwr_regen_deficit"], 0), EQ(out(c, i), 0))))
            else:
                claims.append(Claim(f"unit{i}_regen_within_published_regen_limit_when_regen_suffices", lambda c, i=i: IMP(XEQ(c.S["cs_pwr_regen_deficit"], 0), LE(-out(c, i), c.S[f"l{i}_ls_pwr_regen_max"]))))
    if policy == "RESGreedy" and direction == "pos":
        conv = [i for i, k in enumerate(comp) if k == "C"]
        if conv:
            def conv_share(c):
                t = 0
                for i in conv:
                    t = t + out(c, i)
                return EQ(t, c.S["cs_pwr_out_deficit"])
            claims.append(Claim("battery_first: fuel units deliver only the deficit", conv_share))
    claims.append(Claim("never_err", lambda c: False, when="err"))
    claims.append(Claim("no_panic", None, when="nopanic"))
    cs = auto_state("ConsistState", "cs_")
    fn = "<PowerDistributionControlType as SolvePower>::solve_positive_traction" if direction == "pos" else "<PowerDistributionControlType as SolvePower>::solve_negative_traction"
    return Case(
        f"split_{policy}_{comp}_{direction}", "C10", "PowerDistributionControlType", Variant(policy, {}),
        [Call(fn, [("&Vec<Locomotive>", loco_vec_tmpl(comp, n)), ("&ConsistState", cs)])],
        assume, claims,
        bounds={"units": N, "composition": comp, "policy": policy, "direction": direction},
        notes=["pre-state: per-unit published limits, ratings and the demand are symbolic; consist aggregates are tied to them by the formulas of Consist::set_cur_pwr_max_out / solve_energy_consumption (assumptions)"],
        max_paths=20000, timeout_ms=60000,
    )


def _loco_command_stub(eng, st, args):
    """Locomotive::solve_energy_consumption replaced by what this property needs of it: the unit records the power it was commanded
    (the powertrain physics of an accepted command is the subject of C01 / C08 / C09)"""
    from values import Enum, UNIT
    p = args[0]
    loco = eng.load_ptr(st, p)
    si_ = eng.mir.field_index("Locomotive", "state", len(loco.fields))
    stt = loco.fields[si_]
    pi_ = eng.mir.field_index("LocomotiveState", "pwr_out", len(stt.fields))
    eng.store(st, p.root, tuple(p.path) + (si_, pi_), args[1])
    return [(st, Enum("Result", 0, [UNIT]))]


def consist_battery_first_case(comp="CB"):
    """the split as the consist applies it: Consist::solve_energy_consumption (after set_pwr_aux / set_cur_pwr_max_out) under the
    battery-first policy, with the cached count of battery units arbitrary (nothing invalidates it when the unit list changes):
    fuel-burning units are commanded only the part of a positive demand the battery units cannot cover"""
    import C11
    t = C11.consist_tmpl(comp, 2)
    t["pdct"] = Variant("RESGreedy", {})
    t["n_res_equipped"] = Sym("nres", "int")
    conv = [j for j, ch in enumerate(comp) if ch == "C"]

    def assume(S):
        d = [("dt > 0", S["dt"] > 0), ("positive traction demand", S["req"] > 0), ("cached battery-unit count: any u8 (possibly stale)", z3.And(S["nres"] >= 0, S["nres"] <= 255))]
        for j, ch in enumerate(comp):
            d += loco_domain(S, C11.KINDS[ch], f"l{j}_", 2)
            if ch == "C":
                d.append((f"l{j}: previous shaft power >= 0", S[f"l{j}_fc_s_pwr_brake"] >= 0))
        return d

    def deficit(c):
        return MAX(0, c.S["req"] - c.post["state.pwr_out_max_reves"])

    claims = [
        Claim("battery_first at consist level: the fuel units together are commanded exactly the deficit the consist computed", lambda c: EQ(sum(c.post[f"loco_vec.{j}.state.pwr_out"] for j in conv), c.post["state.pwr_out_deficit"]),
              when="ok", role="consist_battery_first_sum"),
        Claim("battery_first at consist level: while the battery units can cover the demand the fuel units are commanded nothing",
              lambda c: IMP(XEQ(c.post["state.pwr_out_deficit"], 0), AND(*[EQ(c.post[f"loco_vec.{j}.state.pwr_out"], 0) for j in conv])), when="ok", role="consist_battery_first"),
        Claim("the deficit is the part of the demand above what the battery units can deliver", lambda c: EQ(c.post["state.pwr_out_deficit"], deficit(c)), when="ok", role="consist_deficit"),
        Claim("no_panic", None, when="nopanic"),
    ]
    case = Case(f"consist_battery_first_{comp}", "C10", "Consist", t, C11.CONSIST_STEP(), assume, claims,
                bounds={"composition": comp, "policy": "RESGreedy", "demand": "> 0", "cached n_res_equipped": "symbolic u8", "steps": "1 solve_step sequence from an arbitrary pre-state"},
                stubs={"utils::interp1d": interp1d_contract, "utils::interp3d": interp3d_contract, "Locomotive::solve_energy_consumption": _loco_command_stub},
                max_paths=60000, timeout_ms=120000, check_side=False,
                notes=["efficiency-map interpolations replaced by their contracts (C08)", "each unit's solve_energy_consumption replaced by a stub that records the commanded power"])
    case.native_pre = [Call("Consist::verif_set_n_res_equipped", [("u8", Sym("nres", "int"))])]  # the cache is serde-skipped: set on the real object by a hook
    return case


def m_cases(tier):
    return _m_cases(tier) + [consist_battery_first_case("CB")]


def _m_cases(tier):
    tier = "thorough"  # the full case list is cheap enough to run on every change (the tiers differ only in validation vectors)
    comps = ["CB", "BC", "CC", "BB", "CBC"] if tier == "quick" else ["C", "B", "CB", "BC", "CC", "BB", "CBC", "BCB", "CCB", "BBC", "CCC", "BBB", "CBCB"]
    cs = []
    for comp in comps:
        for pol in ("RESGreedy", "Proportional"):
            for d in ("pos", "neg"):
                cs.append(split_case(comp, pol, d))
    return cs
