"""C02 — the enforced speed-limit profile never exceeds any posted limit (nor the train's maximum speed)."""
from speedcommon import *  # noqa


def insert_le_case(n):
    def assume(S):
        return profile_domain(S, n, canonical=False)

    claims = [
        Claim("enforced_limit_not_above_restriction_where_it_applies", lambda c: IMP(covers(c, c.S["x"]), LE(eval_profile_strict(c.post, c.S["x"]), c.S["rv"])), when="ret", role="not_above_restriction"),
        Claim("enforced_limit_not_above_previous_profile", lambda c: LE(eval_profile_strict(c.post, c.S["x"]), eval_profile_strict(c.pre, c.S["x"])), when="ret", role="not_above_previous"),
        Claim("no_panic", None, when="nopanic"),
    ]
    return Case(f"insert_speed_le_n{n}", "C02", "Vec<SpeedLimitPoint>", profile_tmpl(n),
                [Call(INSERT, [("&SpeedLimit", restriction_tmpl())])], assume, claims, extra_syms=("x",),
                bounds={"profile points before the insertion": n, "restrictions inserted": "1 (inductive step; the profile need not be canonical)"},
                max_paths=20000, loop_bound=60, timeout_ms=60000)


def train_params_tmpl():
    return {"length": Sym("tlen"), "speed_max": Sym("vmax"), "towed_mass_static": Sym("tmass"), "mass_per_brake": Sym("mpb"), "axle_count": Sym("axles", "int"),
            "train_type": "Freight", "curve_coeff_0": 0, "curve_coeff_1": 0, "curve_coeff_2": 0}


def add_speeds_case(n, k, head_end, param, exact=False, prop="C02"):
    """PathTpc::add_speeds on a profile of n points with a speed set of k restrictions"""
    params = []
    if param is not None:
        params = [{"limit_val": Sym("lim"), "limit_type": param[0], "compare_type": param[1]}]
    ss = {"speed_limits": [{"offset_start": Sym(f"rs{j}"), "offset_end": Sym(f"re{j}"), "speed": Sym(f"rv{j}")} for j in range(k)],
          "speed_params": params, "is_head_end": head_end}

    def applies(S):
        if param is None:
            return True
        lt, ct = param
        if lt == "AxleCount":
            tp, rp = S["axles"], S["lim_int"]
        else:
            tp, rp = (S["tmass"] if lt == "MassTotal" else S["mpb"]), S["lim"]
        return {"TpEqualRp": XEQ(tp, rp), "TpGreaterThanRp": XLT(rp, tp), "TpLessThanRp": XLT(tp, rp), "TpGreaterThanEqualRp": XLE(rp, tp), "TpLessThanEqualRp": XLE(tp, rp)}[ct]

    def assume(S):
        d = profile_domain(S, n, canonical=False, restriction=False)
        d += [("train length > 0", S["tlen"] > 0), ("speed_max > 0", S["vmax"] > 0), ("masses > 0", z3.And(S["tmass"] > 0, S["mpb"] > 0)),
              ("0 < axle_count < 2^16", z3.And(S["axles"] > 0, S["axles"] < 65536)), ("offset_base >= 0", S["base"] >= 0)]
        for i in range(n):
            d.append((f"v{i} <= speed_max (invariant: the profile starts at speed_max and only ever takes minima; re-proved below)", S[f"v{i}"] <= S["vmax"]))
        for j in range(k):
            if head_end:
                d.append((f"restriction {j}: 0 <= start < end, speed > 0", z3.And(S[f"rs{j}"] >= 0, S[f"rs{j}"] < S[f"re{j}"], S[f"rv{j}"] > 0)))
            else:
                d.append((f"restriction {j}: 0 <= start <= end (point restrictions allowed in tail-end sets), speed > 0", z3.And(S[f"rs{j}"] >= 0, S[f"rs{j}"] <= S[f"re{j}"], S[f"rv{j}"] > 0)))
            d.append((f"restriction {j} starts at/after the first profile point once shifted", S["o0"] <= S[f"rs{j}"] + S["base"]))
        if param is not None:
            d.append(("limit_val >= 0", S["lim"] >= 0))
            if param[0] == "AxleCount":
                d.append(("axle limit is a whole number below 2^16 (validated)", z3.And(S["lim"] == z3.ToReal(S["lim_int"]), S["lim_int"] >= 0, S["lim_int"] < 65536)))
        return d

    def posted(c, j, x):
        """restriction j covers x once shifted by the base offset and, for tail-end sets, extended by the train length"""
        add = 0 if head_end else c.S["tlen"]
        return AND(XLE(c.S[f"rs{j}"] + c.S["base"], x), XLT(x, c.S[f"re{j}"] + c.S["base"] + add))

    claims = [Claim("enforced_limit_not_above_previous_profile", lambda c: LE(eval_profile_strict(c.post, c.S["x"]), eval_profile_strict(c.pre, c.S["x"])), role="not_above_previous")]
    for j in range(k):
        claims.append(Claim(f"restriction{j}_enforced_over_its_extent_{'head' if head_end else 'tail+train_length'}",
                            lambda c, j=j: IMP(AND(applies(c.S), posted(c, j, c.S["x"])), LE(eval_profile_strict(c.post, c.S["x"]), MIN(c.S[f"rv{j}"], MAX(eval_profile_strict(c.pre, c.S["x"]), c.S[f"rv{j}"])))),
                            role="restriction_enforced"))
    claims.append(Claim("enforced_limit_never_above_train_speed_max (invariant preserved)", lambda c: LE(eval_profile_strict(c.post, c.S["x"]), c.S["vmax"])))
    claims.append(Claim("set_that_does_not_apply_changes_nothing", lambda c: IMP(NOT(applies(c.S)), EQ(eval_profile_strict(c.post, c.S["x"]), eval_profile_strict(c.pre, c.S["x"])))))
    if exact:
        def tightest(c):
            x = c.S["x"]
            val = eval_profile_strict(c.pre, x)
            for j in range(k):
                val = IF(AND(applies(c.S), posted(c, j, x)), MIN(val, c.S[f"rv{j}"]), val)
            return val
        claims = [Claim("enforced_limit_equals_min(speed_max, covering restrictions)", lambda c: EQ(eval_profile_strict(c.post, c.S["x"]), tightest(c)), role="exact_min")]
    claims.append(Claim("never_err", lambda c: False, when="err"))
    claims.append(Claim("no_panic", None, when="nopanic"))
    extra = ["x"] + (["lim_int"] if param and param[0] == "AxleCount" else [])
    name = f"add_speeds{'_exact' if exact else ''}_n{n}_k{k}_{'head' if head_end else 'tail'}_{'noparam' if param is None else param[0] + '_' + param[1]}"
    c = Case(name, prop, "Vec<SpeedLimitPoint>", profile_tmpl(n),
             [Call("PathTpc::add_speeds", [("&TrainParams", train_params_tmpl()), ("&SpeedSet", ss), ("si::Length", Sym("base"))])],
             assume, claims, extra_syms=tuple(extra),
             bounds={"profile points": n, "restrictions in the set": k, "head_end": head_end, "gating parameter": str(param)},
             max_paths=40000, loop_bound=80, timeout_ms=60000)
    c.int_syms = ("lim_int",) if "lim_int" in extra else ()
    return c


def m_cases(tier):
    tier = "thorough"  # the full case list is cheap enough to run on every change (the tiers differ only in validation vectors)
    cs = [insert_le_case(n) for n in ([1, 2, 3] if tier == "quick" else [1, 2, 3, 4, 5])]
    if tier == "quick":
        cs += [add_speeds_case(2, 1, True, None), add_speeds_case(2, 1, False, None), add_speeds_case(1, 2, False, None),
               add_speeds_case(1, 1, False, ("MassTotal", "TpGreaterThanRp")), add_speeds_case(1, 1, True, ("AxleCount", "TpLessThanEqualRp"))]
    else:
        for he in (True, False):
            cs += [add_speeds_case(2, 1, he, None), add_speeds_case(1, 2, he, None), add_speeds_case(2, 2, he, None), add_speeds_case(3, 1, he, None)]
        for lt in ("MassTotal", "MassPerBrake", "AxleCount"):
            for ct in ("TpEqualRp", "TpGreaterThanRp", "TpLessThanRp", "TpGreaterThanEqualRp", "TpLessThanEqualRp"):
                cs.append(add_speeds_case(1, 1, False, (lt, ct)))
    return cs
