"""C03 (partial) — the speed the controller aims for is never above the limit in force; limit lookup is exact."""
from common import *  # noqa


def bp_tmpl(n, idx_curr):
    return {"points": [{"offset": Sym(f"o{i}"), "speed_limit": Sym(f"l{i}"), "speed_target": Sym(f"t{i}")} for i in range(n)], "idx_curr": idx_curr}


def bp_domain(S, n, idx_curr):
    """the shape BrakingPoints::recalc establishes: offsets strictly decreasing from the end of the path (index 0) towards its beginning,
    target <= limit pointwise, non-negative speeds; the cached index is not ahead of the train"""
    d = []
    for i in range(n - 1):
        d.append((f"o{i} > o{i+1} (offsets decrease with the index)", S[f"o{i}"] > S[f"o{i+1}"]))
    for i in range(n):
        d.append((f"0 <= t{i} <= l{i}", z3.And(S[f"t{i}"] >= 0, S[f"t{i}"] <= S[f"l{i}"])))
    d += [(f"last point at/behind the train: o{n-1} <= offset", S[f"o{n-1}"] <= S["x"]),
          (f"cached index {idx_curr} not ahead of the train: o{idx_curr} <= offset", S[f"o{idx_curr}"] <= S["x"]),
          ("speed >= 0, brake look-ahead time >= 0", z3.And(S["v"] >= 0, S["ramp"] >= 0))]
    return d


def true_idx_val(S, n, f):
    """value of field f at the point in force at x: the point with the largest offset <= x (smallest index with o_i <= x)"""
    val = S[f"{f}{n-1}"]
    for i in range(n - 2, -1, -1):
        val = IF(XLE(S[f"o{i}"], S["x"]), S[f"{f}{i}"], val)
    return val


def calc_speeds_case(n, idx_curr):
    def assume(S):
        return bp_domain(S, n, idx_curr) + [("the train respects the limit in force (otherwise the documented assert fires)", S["v"] <= true_idx_val(S, n, "l"))]

    def expected_target(c):
        S = c.S
        far = S["x"] + S["v"] * S["ramp"]
        # minimum of the targets of the point in force and of every point ahead of it whose offset is <= the look-ahead position
        val = None
        for i in range(n - 1, -1, -1):
            in_force_or_behind = XLE(S[f"o{i}"], S["x"])  # true for the point in force and all points behind it
            cur = true_idx_val(S, n, "t")
            if val is None:
                val = cur
            ahead_within = AND(NOT(in_force_or_behind), XLE(S[f"o{i}"], far))
            val = IF(ahead_within, MIN(val, S[f"t{i}"]), val)
        return val

    def ret(c, k):
        r = c.retval()
        if hasattr(r, "fields"):
            return r.fields[k]
        return r[k]

    claims = [
        Claim("returned limit is the limit in force at the train's position", lambda c: EQ(ret(c, 0), true_idx_val(c.S, n, "l")), when="ret", role="limit_lookup"),
        Claim("returned target = min over the point in force and all points within the brake look-ahead", lambda c: EQ(ret(c, 1), expected_target(c)), when="ret", role="target_min_lookahead"),
        Claim("the speed the controller aims for is never above the limit in force", lambda c: LE(ret(c, 1), ret(c, 0)), when="ret", role="target_le_limit"),
        Claim("no panic when the train respects the limit (index arithmetic stays in range)", None, when="nopanic", role="no_panic"),
    ]
    c = Case(f"calc_speeds_n{n}_idx{idx_curr}", "C03", "BrakingPoints", bp_tmpl(n, idx_curr),
             [Call("BrakingPoints::calc_speeds", [("si::Length", Sym("x")), ("si::Velocity", Sym("v")), ("si::Time", Sym("ramp"))])], assume, claims,
             bounds={"braking points": n, "cached index": idx_curr}, loop_bound=60, check_side=False)
    return c


def m_cases(tier):
    cs = []
    for n in ((2, 3, 4) if tier == "quick" else (1, 2, 3, 4, 5)):
        for idx in range(n):
            cs.append(calc_speeds_case(n, idx))
    return cs
