"""C03 (partial) — the speed the controller aims for is never above the limit in force; limit lookup is exact."""
from common import *  # noqa
from trainparts import g, GQ  # noqa


def bp_tmpl(n, idx_curr):
    return {"points": [{"offset": Sym(f"o{i}"), "speed_limit": Sym(f"l{i}"), "speed_target": Sym(f"t{i}")} for i in range(n)], "idx_curr": idx_curr}


def bp_domain(S, n, idx_curr):
    """braking-point lists with offsets strictly decreasing from the end of the path (index 0) towards its beginning (what recalc builds
    as long as no exit point overshoots a section start and the curve stays on the path; the other lists are covered by the composed
    recalc + lookup harness below), target <= limit pointwise, non-negative speeds; the cached index is not ahead of the train"""
    d = []
    for i in range(n - 1):
        d.append((f"o{i} > o{i+1} (offsets decrease with the index)", S[f"o{i}"] > S[f"o{i+1}"]))
    for i in range(n):
        d.append((f"0 <= t{i} <= l{i}", z3.And(S[f"t{i}"] >= 0, S[f"t{i}"] <= S[f"l{i}"])))
    d += [(f"last point at/behind the train: o{n-1} <= offset", S[f"o{n-1}"] <= S["x"]),
          (f"cached index {idx_curr} not ahead of the train: o{idx_curr} <= offset", S[f"o{idx_curr}"] <= S["x"]),
          ("speed >= 0, brake look-ahead time >= 0", z3.And(S["v"] >= 0, S["ramp"] >= 0))]
    return d


def true_idx_val(S, n, f):
    """value of field f at the point in force at x: the point with the largest offset <= x (smallest index with o_i <= x)"""
    val = S[f"{f}{n-1}"]
    for i in range(n - 2, -1, -1):
        val = IF(XLE(S[f"o{i}"], S["x"]), S[f"{f}{i}"], val)
    return val


def calc_speeds_case(n, idx_curr):
    def assume(S):
        return bp_domain(S, n, idx_curr) + [("the train respects the limit in force (otherwise the documented assert fires)", S["v"] <= true_idx_val(S, n, "l"))]

    def expected_target(c):
        S = c.S
        far = S["x"] + S["v"] * S["ramp"]
        # minimum of the targets of the point in force and of every point ahead of it whose offset is <= the look-ahead position
        val = None
        for i in range(n - 1, -1, -1):
            in_force_or_behind = XLE(S[f"o{i}"], S["x"])  # true for the point in force and all points behind it
            cur = true_idx_val(S, n, "t")
            if val is None:
                val = cur
            ahead_within = AND(NOT(in_force_or_behind), XLE(S[f"o{i}"], far))
            val = IF(ahead_within, MIN(val, S[f"t{i}"]), val)
        return val

    def ret(c, k):
        r = c.retval()
        if hasattr(r, "fields"):
            return r.fields[k]
        return r[k]

    claims = [
        Claim("returned limit is the limit in force at the train's position", lambda c: EQ(ret(c, 0), true_idx_val(c.S, n, "l")), when="ret", role="limit_lookup"),
        Claim("returned target = min over the point in force and all points within the brake look-ahead", lambda c: EQ(ret(c, 1), expected_target(c)), when="ret", role="target_min_lookahead"),
        Claim("the speed the controller aims for is never above the limit in force", lambda c: LE(ret(c, 1), ret(c, 0)), when="ret", role="target_le_limit"),
        Claim("no panic when the train respects the limit (index arithmetic stays in range)", None, when="nopanic", role="no_panic"),
    ]
    c = Case(f"calc_speeds_n{n}_idx{idx_curr}", "C03", "BrakingPoints", bp_tmpl(n, idx_curr),
             [Call("BrakingPoints::calc_speeds", [("si::Length", Sym("x")), ("si::Velocity", Sym("v")), ("si::Time", Sym("ramp"))])], assume, claims,
             bounds={"braking points": n, "cached index": idx_curr}, loop_bound=60, check_side=False)
    return c


# ---------------------------------------------------------------- BrakingPoints::recalc: the curve the lookup above runs on
SC.add_wrapper("W_Recalc", [("bp", "BrakingPoints"), ("state", "TrainState"), ("fric_brake", "FricBrake"), ("train_res", "TrainRes"), ("path_tpc", "PathTpc")])

MASS = 1000  # kg, concrete: keeps the deceleration per step (force / mass) linear in the symbolic brake force
DT = 1       # s, concrete for the same reason


def recalc_case(nsp, grade=None, kmax=2, lookup=False):
    """recalc on a one-link path with nsp posted speed sections, then a lookup at a symbolic position.
    kmax bounds the length of each braking curve: every posted limit is at most kmax velocity steps (the loop bound of this harness)."""
    import traincommon as tc
    st = tc.train_state_tmpl(1)
    st["dt"] = DT
    st["mass_static"] = MASS
    st["mass_rot"] = 0
    if grade:
        st["length"] = 100  # m, concrete: the grade force divides by the train length
    L = Sym("L")
    # grade profile: level, or two grades g0 / g1 with a break at gb (elevation is the running integral, as PathTpc::extend builds it)
    from fractions import Fraction as _F
    G0, G1 = (_F(str(grade[0])), _F(str(grade[1]))) if grade else (0, 0)  # concrete grades keep elevation linear in the symbolic positions
    gr = [{"offset": 0, "res_coeff": float(G0), "res_net": 0}, {"offset": Sym("gb"), "res_coeff": float(G1), "res_net": Sym("e1")}, {"offset": L, "res_coeff": 0, "res_net": Sym("e2")}] if grade else \
        [{"offset": 0, "res_coeff": 0, "res_net": 0}, {"offset": L, "res_coeff": 0, "res_net": 0}]
    flat = [{"offset": 0, "res_coeff": 0, "res_net": 0}, {"offset": L, "res_coeff": 0, "res_net": 0}]
    tpc = {"link_points": [{"offset": 0, "grade_count": 0, "curve_count": 0, "cat_power_count": 0, "link_idx": 1}, {"offset": L, "grade_count": 0, "curve_count": 0, "cat_power_count": 0, "link_idx": 0}],
           "grades": gr, "curves": flat, "speed_points": [{"offset": (0 if j == 0 else Sym(f"so{j}")), "speed_limit": Sym(f"sl{j}")} for j in range(nsp)], "cat_power_limits": [],
           "train_params": {"length": 100 if grade else Sym("ts_length"), "speed_max": 30, "towed_mass_static": 1000, "mass_per_brake": 100, "axle_count": 4, "train_type": "Freight",
                            "curve_coeff_0": 0, "curve_coeff_1": 0, "curve_coeff_2": 0},
           "is_finished": False}
    res = Variant("Strap", {"bearing": {"force": Sym("bearing")}, "rolling": {"ratio": 0}, "davis_b": {"davis_b": 0}, "aerodynamic": {"cd_area": 0},
                            "grade": {"idx_front": 0, "idx_back": 0}, "curve": {"idx_front": 0, "idx_back": 0}})
    recv = {"bp": {"points": [], "idx_curr": 0}, "state": st, "fric_brake": tc.fric_brake_tmpl(), "train_res": res, "path_tpc": tpc}

    def so(S, j):
        return 0 if j == 0 else S[f"so{j}"]

    def tlen(S):
        return 100 if grade else S["ts_length"]

    def assume(S):
        a = (S["fb_force_max"] + S["bearing"] + (0.03 * MASS * GQ if grade else 0)) / MASS * DT  # largest velocity step (level track; steepest upgrade)
        d = [("brake force > 0, bearing resistance >= 0", z3.And(S["fb_force_max"] > 0, S["bearing"] >= 0)), ("train length > 0", tlen(S) > 0),
             ("path longer than the train", S["L"] > tlen(S))]
        prev = 0
        for j in range(1, nsp):
            d.append((f"posted section offsets strictly increasing inside the path: so{j}", z3.And(S[f"so{j}"] > prev, S[f"so{j}"] < S["L"])))
            prev = S[f"so{j}"]
        for j in range(nsp):
            d.append((f"0 < sl{j} <= {kmax} velocity steps (bounds the curve length)", z3.And(S[f"sl{j}"] > 0, S[f"sl{j}"] <= kmax * a)))
        for j in range(nsp - 1):
            d.append((f"canonical profile: adjacent posted limits differ: sl{j} != sl{j+1}", S[f"sl{j}"] != S[f"sl{j+1}"]))
        if grade:
            d += [("grade break inside the path", z3.And(S["gb"] > 0, S["gb"] < S["L"])),
                  ("elevation is the running integral of the grade", z3.And(S["e1"] == z3.RealVal(_F(float(G0))) * S["gb"], S["e2"] == S["e1"] + z3.RealVal(_F(float(G1))) * (S["L"] - S["gb"]))),
                  ("the brake alone holds the train on the steepest grade with margin: force_max >= 2 * 3 % of the weight", S["fb_force_max"] >= 2 * 0.03 * MASS * GQ)]
        return d

    def pts(c):
        P = c.post["bp.points"]
        n = P.len()
        return [(P[f"{i}.offset"], P[f"{i}.speed_limit"], P[f"{i}.speed_target"]) for i in range(n)]

    def first_point(c):
        P = pts(c)
        return AND(EQ(P[0][0], c.S["L"]), EQ(P[0][1], 0), EQ(P[0][2], 0))

    def last_point(c):
        P = pts(c)
        return AND(EQ(P[-1][0], 0), EQ(P[-1][1], c.S["sl0"]), EQ(P[-1][2], c.S["sl0"]), EQ(c.post["bp.idx_curr"], len(P) - 1))

    def target_le_limit(c):
        return AND(*[AND(XLE(0, t), LE(t, l)) for (_, l, t) in pts(c)])

    def offsets_decrease(c):
        """offsets never increase with the index for as long as the curve stays on the path; once a curve point lies at or before the
        start of the path (the path is too short to brake from the posted speed) the remaining posted sections are appended after it"""
        P = pts(c)
        conds = []
        for i in range(len(P) - 1):
            conds.append(OR(XLE(P[i + 1][0], P[i][0]), *[XLE(P[k][0], 0) for k in range(i + 1)]))
        return AND(*conds) if conds else True

    def offsets_strict(c):
        P = pts(c)
        return AND(*[XLT(P[i + 1][0], P[i][0]) for i in range(len(P) - 1)]) if len(P) > 1 else True

    def jumps_boundary(c):
        """some braking point lies strictly behind a posted-section boundary that its predecessor lies strictly ahead of: the curve
        crossed back into an earlier section without ending at the boundary (the situation of the known finding)"""
        P = pts(c)
        S = c.S
        # (a point exactly on the boundary counts unless it is the closing point of that section: limit = target = posted limit)
        conds = [AND(OR(XLT(P[i][0], S[f"so{b}"]), AND(XEQ(P[i][0], S[f"so{b}"]), NOT(AND(XEQ(P[i][1], S[f"sl{b}"]), XEQ(P[i][2], S[f"sl{b}"]))))), XLT(S[f"so{b}"], P[i - 1][0]))
                 for i in range(1, len(P)) for b in range(1, nsp)]
        return OR(*conds) if conds else False

    def unless_jump(f):
        return lambda c: (f(c) if jumps_boundary(c) is False else IMP(NOT(jumps_boundary(c)), f(c)))

    def below_posted(c):
        """every braking point's limit is <= the posted limit wherever that point is the one in force:
        point i (i >= 1) is in force on [o_i, o_{i-1}); posted section j covers [so_j, so_{j+1})"""
        P = pts(c)
        S = c.S
        conds = []
        for i in range(1, len(P)):
            for j in range(nsp):
                hi_j = S[f"so{j+1}"] if j + 1 < nsp else None
                overlap = [XLT(P[i][0], P[i - 1][0]), XLT(so(S, j), P[i - 1][0])]
                if hi_j is not None:
                    overlap.append(XLT(P[i][0], hi_j))
                conds.append(IMP(AND(*overlap), LE(P[i][1], S[f"sl{j}"])))
        return AND(*conds) if conds else True

    def elev(S, x):
        from values import is_z3 as _isz
        q0, q1 = (z3.RealVal(_F(float(G0))), z3.RealVal(_F(float(G1)))) if any(_isz(v) for v in S.values()) else (float(G0), float(G1))
        return IF(XLE(S["gb"], x), S["e1"] + q1 * (x - S["gb"]), q0 * x)

    def physics(c):
        """going backwards, the curve never gains more speed per step than the brake plus the true resistance at that point give:
        l[i+1] <= l[i] + dt * (force_max + bearing + weight * (elev(front) - elev(rear)) / length) / mass"""
        P = pts(c)
        S = c.S
        conds = []
        for i in range(len(P) - 1):
            o, l = P[i][0], P[i][1]
            grade_force = (MASS * g(S["L"]) * (elev(S, o) - elev(S, o - tlen(S)))) if grade else 0
            # (once a curve point lies at or before the start of the path the curve is abandoned and the remaining posted sections are appended)
            conds.append(IMP(AND(XLT(l, P[i + 1][1]), *[XLT(0, P[k][0]) for k in range(i + 2)]),
                             LE((P[i + 1][1] - l) * MASS * tlen(S), DT * ((S["fb_force_max"] + S["bearing"]) * tlen(S) + grade_force))))
        return AND(*conds) if conds else True

    claims = [
        Claim("the curve gains speed (backwards) no faster than brake + true resistance allow", physics, when="ok", role="recalc_physics"),
        Claim("curve starts with a stop at the end of the path", first_point, when="ok", role="recalc_first_point"),
        Claim("curve ends with the first posted section at the start of the path; cursor on the last point", last_point, when="ok", role="recalc_last_point"),
        Claim("0 <= target <= limit at every braking point (curves that end at section boundaries)", unless_jump(target_le_limit), when="ok", role="recalc_target_le_limit"),
        Claim("0 <= target <= limit at every braking point (all curves)", target_le_limit, when="ok", role="recalc_crossing_target_le_limit"),
        Claim("limit in force from the braking curve is never above the posted limit at that position (curves that end at section boundaries)", unless_jump(below_posted), when="ok", role="recalc_below_posted"),
        Claim("limit in force from the braking curve is never above the posted limit at that position (all curves)", below_posted, when="ok", role="recalc_crossing_below_posted"),
        Claim("no_panic", None, when="nopanic", role="recalc_no_panic"),
    ]
    def posted(c):
        """posted limit at position x: the section with the largest start <= x"""
        S = c.S
        val = S["sl0"]
        for j in range(1, nsp):
            val = IF(XLE(S[f"so{j}"], S["x"]), S[f"sl{j}"], val)
        return val

    def ret(c, k):
        r = c.retval()
        return r.fields[k] if hasattr(r, "fields") else r[k]

    if lookup:
        claims = [
            Claim("limit in force returned by the lookup is never above the posted limit at the train's position (curves that end at section boundaries)",
                  unless_jump(lambda c: LE(ret(c, 0), posted(c))), when="ok", role="lookup_below_posted"),
            Claim("limit in force returned by the lookup is never above the posted limit at the train's position (all curves)", lambda c: LE(ret(c, 0), posted(c)), when="ok", role="lookup_crossing_below_posted"),
            Claim("the speed the controller aims for is never above the limit in force (curves that end at section boundaries)",
                  unless_jump(lambda c: AND(XLE(0, ret(c, 1)), LE(ret(c, 1), ret(c, 0)))), when="ok", role="lookup_target_le_limit"),
            Claim("the speed the controller aims for is never above the limit in force (all curves)", lambda c: AND(XLE(0, ret(c, 1)), LE(ret(c, 1), ret(c, 0))), when="ok", role="lookup_crossing_target_le_limit"),
            Claim("no_panic", None, when="nopanic", role="lookup_no_panic"),
        ]
        return Case(f"recalc_lookup_sp{nsp}_{('grade%+g%+g' % tuple(grade)).replace('.', 'p') if grade else 'flat'}_k{kmax}", "C03", "W_Recalc", recv,
                    [Call("BrakingPoints::recalc", [("@state", None), ("@fric_brake", None), ("@train_res", None), ("@path_tpc", None)], recv_path="bp"),
                     Call("BrakingPoints::calc_speeds", [("si::Length", Sym("x1")), ("si::Velocity", 0), ("si::Time", Sym("ramp"))], recv_path="bp"),
                     Call("BrakingPoints::calc_speeds", [("si::Length", Sym("x")), ("si::Velocity", 0), ("si::Time", Sym("ramp"))], recv_path="bp")],
                    lambda S: assume(S) + [("train front on the path, an earlier lookup behind the current one: length <= x1 <= x <= L", z3.And(S["x1"] >= tlen(S), S["x1"] <= S["x"], S["x"] <= S["L"])),
                                           ("brake look-ahead time >= 0", S["ramp"] >= 0)], claims,
                    bounds={"posted speed sections": nsp, "links": 1, "curve length": f"each posted limit <= {kmax} velocity steps", "dt": f"{DT} s (concrete)", "train mass": f"{MASS} kg (concrete)",
                            "grade": f"grades {grade[0]} / {grade[1]} with a break at a symbolic position" if grade else "level", "speed-dependent resistance": "none (Davis B, aero = 0)", "lookup": "two successive lookups at symbolic positions x1 <= x (cached cursor carried over), train at rest"},
                    expect_ok=True, max_paths=60000, loop_bound=14, timeout_ms=90000, check_side=False)
    return Case(f"recalc_sp{nsp}_{('grade%+g%+g' % tuple(grade)).replace('.', 'p') if grade else 'flat'}_k{kmax}", "C03", "W_Recalc", recv,
                [Call("BrakingPoints::recalc", [("@state", None), ("@fric_brake", None), ("@train_res", None), ("@path_tpc", None)], recv_path="bp")], assume, claims,
                bounds={"posted speed sections": nsp, "links": 1, "curve length": f"each posted limit <= {kmax} velocity steps", "dt": f"{DT} s (concrete)", "train mass": f"{MASS} kg (concrete)",
                        "grade": f"grades {grade[0]} / {grade[1]} with a break at a symbolic position" if grade else "level", "speed-dependent resistance": "none (Davis B, aero = 0)"},
                expect_ok=True, max_paths=20000, loop_bound=12, timeout_ms=90000, check_side=False)


# ---------------------------------------------------------------- one control step of the speed-limited train


def sl_step_case(ramp0=True, dtv=1, mass=1000):
    import slstep
    recv = slstep.sl_step_recv(ramp0, dtv, mass)
    v0 = lambda c: c.pre["state.speed"]
    v1 = lambda c: c.post["state.speed"]
    tgt = lambda c: c.post["state.speed_target"]
    lim = lambda c: c.post["state.speed_limit"]
    in_force = lambda c, f: IF(XLE(c.S["bo0"], c.pre["state.offset"]), c.S[f + "0"], c.S[f + "1"])
    claims = [
        Claim("speed after the step is non-negative", lambda c: XLE(0, v1(c)), when="ok", role="step_speed_nonneg"),
        Claim("limit and target stored in the state are those of the braking point in force", lambda c: AND(EQ(lim(c), in_force(c, "bl")), LE(tgt(c), lim(c))), when="ok", role="step_limit_target"),
        Claim("friction brake force within [0, current maximum]", lambda c: AND(XLE(0, c.post["fric_brake.state.force"]), LE(c.post["fric_brake.state.force"], tol(c.post["fric_brake.state.force_max_curr"]) + c.post["fric_brake.state.force_max_curr"] * (1 + tol(c.post["fric_brake.state.force"])))),
              when="ok", role="step_fric_brake_range"),
        Claim("no_panic", None, when="nopanic", role="step_no_panic"),
    ]
    return Case(f"speed_limit_step_control_{'ramp0' if ramp0 else 'ramp'}_dt{dtv}_m{mass}".replace(".", "p"), "C03", "SpeedLimitTrainSim", recv, [Call("SpeedLimitTrainSim::solve_required_pwr", [])],
                lambda S: slstep.sl_step_domain(S, ramp0), claims,
                bounds={"braking points": 2, "consist": "one DummyLoco", "brake ramp-up time": "0 (what TrainSimBuilder sets)" if ramp0 else "symbolic > 0", "steps": "1 from an arbitrary state",
                        "step size": f"{dtv} s (concrete)", "train mass": f"{mass} kg (concrete)"},
                max_paths=20000, timeout_ms=60000, check_side=False)


# ---------------------------------------------------------------- walk_timed_path: the catch-up index logic
SC.add_wrapper("W_TimedWalk", [("sim", "SpeedLimitTrainSim"), ("t0", "f64"), ("times", "Vec<f64>")])


def timed_walk_case(n):
    """SpeedLimitTrainSim::walk_timed_path on a timed path of n entries with symbolic, non-decreasing scheduled times and a symbolic
    initial clock (on time, late, later than the whole schedule). Path extension and the physics are stubbed: extend_path succeeds,
    step advances the clock by at least one second or fails, walk_internal succeeds. Claim: the index arithmetic never panics."""
    import traincommon as tc
    from values import Enum, UNIT, Opaque, to_z3
    sim = tc.slts_tmpl(tc.dummy_consist_tmpl())
    sim["state"]["time"] = Sym("t0")
    recv = {"sim": sim, "t0": Sym("t0"), "times": [Sym(f"t{k}") for k in range(n)]}
    tpath = [{"link_idx": k + 1, "time": Sym(f"t{k}")} for k in range(n)]

    def assume(S):
        d = [("initial clock 0 <= t0 <= 10", z3.And(S["t0"] >= 0, S["t0"] <= 10))]
        prev = 0
        for k in range(n):
            d.append((f"scheduled times non-decreasing in [0, 3]: t{k}", z3.And(S[f"t{k}"] >= prev, S[f"t{k}"] <= 3)))
            prev = S[f"t{k}"]
        return d

    def stub_ok(eng, st, args):
        return [(st, Enum("Result", 0, [UNIT]))]

    def stub_step(eng, st, args):
        p = args[0]
        simv = eng.load_ptr(st, p)
        si_ = eng.mir.field_index("SpeedLimitTrainSim", "state", len(simv.fields))
        ti_ = eng.mir.field_index("TrainState", "time", len(simv.fields[si_].fields))
        d = eng.fresh("step_dt")
        st.define(d >= 1)
        s_err = st.fork()
        eng.store(st, p.root, tuple(p.path) + (si_, ti_), to_z3(simv.fields[si_].fields[ti_]) + d)
        return [(st, Enum("Result", 0, [UNIT])), (s_err, Enum("Result", 1, [Opaque("anyhow::Error")]))]

    claims = [Claim("walk_timed_path never panics, whatever the clock is relative to the schedule", None, when="nopanic", role="timed_walk_no_panic")]
    c = Case(f"walk_timed_path_n{n}", "C03", "W_TimedWalk", recv,
             [Call("SpeedLimitTrainSim::walk_timed_path", [("&Vec<link_impl::Link>", []), ("&Vec<LinkIdxTime>", tpath)], recv_path="sim")], assume, claims,
             bounds={"timed path entries": n, "scheduled times": "symbolic, non-decreasing, within [0, 3] s", "initial clock": "symbolic in [0, 10] s",
                     "environment": "extend_path and walk_internal succeed, step advances the clock by >= 1 s or fails (stubs)"},
             stubs={"SpeedLimitTrainSim::extend_path": stub_ok, "SpeedLimitTrainSim::step": stub_step, "SpeedLimitTrainSim::walk_internal": stub_ok},
             expect_ok=True, max_paths=20000, loop_bound=12, check_side=False)
    c.no_tv = True
    return c


def posted_profile_cases(tier):
    """the speed-point profile the braking curve is built from is never above a posted restriction where it applies: the insert_speed /
    add_speeds harnesses of C02, run under this property as well (a restriction that disappears from the profile is an overspeed here)"""
    import C02
    out = []
    for c in C02.m_cases(tier):
        c.prop = "C03"
        out.append(c)
    return out


def m_cases(tier):
    cs = posted_profile_cases(tier)
    cs += [timed_walk_case(2), timed_walk_case(3), timed_walk_case(4)]
    cs.append(sl_step_case())
    cs.append(recalc_case(1))
    cs.append(recalc_case(2))
    cs.append(recalc_case(2, lookup=True))
    cs.append(recalc_case(1, grade=(-0.02, 0.0)))
    if tier == "thorough":
        cs += [recalc_case(3), recalc_case(2, kmax=3), recalc_case(1, grade=(0.0, -0.02)), recalc_case(1, grade=(0.015, -0.015)), recalc_case(1, grade=(-0.02, 0.01), kmax=3), recalc_case(3, lookup=True)]
    for n in ((2, 3, 4) if tier == "quick" else (1, 2, 3, 4, 5)):
        for idx in range(n):
            cs.append(calc_speeds_case(n, idx))
    # bounded runs: braking curve + controller over every phase of the time-step grid (stop at the end of the path; slowdown)
    cs.append(bounded_run_case(3))
    # bounded_run_case(4, 1, True, True), the slowdown run, usually takes 80 s but its path exploration leans on three early `unknown`
    # feasibility answers: one run in four did not finish in 20 minutes, so it is not registered in either tier (run it by hand:
    # scratch/runcase.py C03 "bounded_run_case(4, 1, True, True)"); it passes on this tree and was run against seed C03-f
    return cs


# ---------------------------------------------------------------- bounded run: braking curve + controller together
def bounded_run_case(K=3, kmax=1, coast=True, slow=False):
    """SpeedLimitTrainSim::recalc_braking_points followed by K control steps (solve_required_pwr) of a train that approaches the end of
    its path at a symbolic position and speed: the overspeed assert of calc_speeds is the oracle (it aborts the process when the train
    is above the limit in force), plus non-negative speed and 'never beyond the end of the path'."""
    import traincommon as tc
    con = tc.dummy_consist_tmpl()
    st = tc.train_state_tmpl(1)
    st["dt"] = DT
    st["mass_static"] = MASS
    st["mass_rot"] = 0
    for f in ("res_rolling", "res_davis_b", "res_aero", "res_grade", "res_curve", "res_bearing"):
        st[f] = 0  # level track without resistance (what update_res would store for the all-zero resistance model below)
    L = Sym("L")
    flat = [{"offset": 0, "res_coeff": 0, "res_net": 0}, {"offset": L, "res_coeff": 0, "res_net": 0}]
    tpc = {"link_points": [{"offset": 0, "grade_count": 0, "curve_count": 0, "cat_power_count": 0, "link_idx": 1}, {"offset": L, "grade_count": 0, "curve_count": 0, "cat_power_count": 0, "link_idx": 0}],
           "grades": flat, "curves": flat, "speed_points": [{"offset": 0, "speed_limit": Sym("sl0")}] + ([{"offset": Sym("so1"), "speed_limit": Sym("sl1")}] if slow else []), "cat_power_limits": [],
           "train_params": {"length": Sym("ts_length"), "speed_max": 30, "towed_mass_static": 1000, "mass_per_brake": 100, "axle_count": 4, "train_type": "Freight",
                            "curve_coeff_0": 0, "curve_coeff_1": 0, "curve_coeff_2": 0},
           "is_finished": False}
    res = Variant("Strap", {"bearing": {"force": 0}, "rolling": {"ratio": 0}, "davis_b": {"davis_b": 0}, "aerodynamic": {"cd_area": 0},
                            "grade": {"idx_front": 0, "idx_back": 0}, "curve": {"idx_front": 0, "idx_back": 0}})
    recv = {"train_id": "", "origs": [], "dests": [], "loco_con": con, "state": st, "train_res": res, "path_tpc": tpc,
            "braking_points": {"points": [], "idx_curr": 0}, "fric_brake": tc.fric_brake_tmpl(), "save_interval": None, "simulation_days": None, "scenario_year": None}
    concrete = dict(fb_force_max=1000, ts_length=100, L=10000, dl_force_max=1000000, fb_ramp_up_coeff=0.6)  # what the claim does not depend on is concrete: keeps every step piecewise linear
    recv["fric_brake"]["force_max"] = concrete["fb_force_max"]
    recv["fric_brake"]["ramp_up_coeff"] = concrete["fb_ramp_up_coeff"]
    recv["fric_brake"]["state"]["force"] = 0
    recv["loco_con"]["loco_vec"][0]["force_max"] = concrete["dl_force_max"]
    tpc["train_params"]["length"] = concrete["ts_length"]
    st["length"] = concrete["ts_length"]
    for d_ in (tpc["link_points"][1], flat[1]):
        d_["offset"] = concrete["L"]
    if coast:
        # a coasting train (no traction available): the controller can only brake, which is all this check is about, and the step stays linear
        recv["loco_con"]["state"]["pwr_out_max"] = 0
        recv["loco_con"]["state"]["pwr_rate_out_max"] = 0
        recv["loco_con"]["state"]["pwr_dyn_brake_max"] = 0
        recv["state"]["pwr_whl_out"] = 0

    def assume(S):
        a = concrete["fb_force_max"] / MASS * DT
        Lc = concrete["L"]
        W = kmax + 1
        if slow:
            return [(f"slowdown from sl0 to sl1 of at most {kmax} velocity steps of {a} m/s, both positive", z3.And(S["sl1"] > 0, S["sl0"] > S["sl1"], S["sl0"] <= S["sl1"] + kmax * a)),
                    (f"the approach speed is at most {kmax + 1} velocity steps (bounds the stop curve that recalc also builds)", S["sl0"] <= (kmax + 1) * a),
                    ("the slower section starts in the middle of the path", z3.And(S["so1"] >= 2000, S["so1"] <= 8000)),
                    ("the train cruises at the posted limit", S["ts_speed"] == S["sl0"]),
                    (f"the train starts between {W + 1} and {W} steps of travel before the slower section (every phase of the time-step grid relative to the braking curve)",
                     z3.And(S["so1"] - S["ts_offset"] >= W * DT * S["sl0"], S["so1"] - S["ts_offset"] < (W + 1) * DT * S["sl0"]))]
        return [(f"0 < posted limit <= {kmax} velocity steps of {a} m/s (bounds the curve length)", z3.And(S["sl0"] > 0, S["sl0"] <= kmax * a)),
                ("the train cruises at the posted limit", S["ts_speed"] == S["sl0"]),
                (f"the train starts between {W + 1} and {W} steps of travel before the end of the path (every phase of the time-step grid relative to the braking curve)",
                 z3.And(Lc - S["ts_offset"] >= W * DT * S["sl0"], Lc - S["ts_offset"] < (W + 1) * DT * S["sl0"]))]

    def posted(c):
        return IF(XLE(c.S["so1"], c.post["state.offset"]), c.S["sl1"], c.S["sl0"]) if slow else c.S["sl0"]

    claims = [
        Claim("speed never negative", lambda c: XLE(0, c.post["state.speed"]), when="ok", role="run_speed_nonneg"),
        Claim("speed never above the posted limit at the train's position", lambda c: LE(c.post["state.speed"], posted(c)), when="ok", role="run_speed_le_posted"),
        Claim("speed never above the limit in force", lambda c: LE(c.post["state.speed"], c.post["state.speed_limit"]), when="ok", role="run_speed_le_limit_in_force"),
        Claim("front never beyond the end of the path", lambda c: LE(c.post["state.offset"], concrete["L"]), when="ok", role="run_within_path"),
        Claim("the overspeed assert never fires (no panic)", None, when="nopanic", role="run_no_panic"),
    ]
    calls = [Call("SpeedLimitTrainSim::recalc_braking_points", [])]
    for _ in range(K):
        # what solve_step does around the controller as far as braking is concerned: refresh the brake force available in this step
        calls += [Call("FricBrake::set_cur_force_max_out", [("si::Time", DT)], recv_path="fric_brake"), Call("SpeedLimitTrainSim::solve_required_pwr", [])]
    return Case(f"bounded_run_{'slowdown' if slow else 'stop'}_K{K}_k{kmax}", "C03", "SpeedLimitTrainSim", recv, calls, assume, claims,
                bounds={"steps": K, "posted sections": 2 if slow else 1, "curve length": f"posted limit <= {kmax} velocity steps", "dt": f"{DT} s (concrete)", "train mass": f"{MASS} kg (concrete)", "track": "level, no resistance, 10 km", "brake force": "1000 N (1 m/s per step)", "train length": "100 m",
                        "traction": "none (coasting train): only the braking side of the controller is exercised", "start": f"cruising at the posted limit, symbolic position {kmax + 1} to {kmax + 2} steps of travel before the " + ("slower section" if slow else "end of the path") + " (all phases)"},
                expect_ok=True, max_paths=60000, loop_bound=14, timeout_ms=90000, check_side=False)
