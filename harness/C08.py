"""C08 — every component obeys the second law; a switched-off engine burns nothing."""
from common import *  # noqa


def _arg(c, i, ci=0):
    return c.args[ci][i]


def fc_case(n):
    def assume(S):
        return fc_domain(S, "fc_", n) + [("dt > 0", S["dt"] > 0)] + [(f"fc_s_{k} >= 0 (cumulative energies start non-negative)", S["fc_s_" + k] >= 0) for k in ("energy_loss",)]

    claims = [
        Claim("eta_in_(0,1]", lambda c: AND(GT(c.post["state.eta"], 0), LE(c.post["state.eta"], 1))),
        Claim("loss_nonneg", lambda c: GE(c.post["state.pwr_loss"], 0)),
        Claim("out_le_in", lambda c: LE(c.post["state.pwr_brake"], c.post["state.pwr_fuel"])),
        Claim("energy_fuel_monotone", lambda c: GE(c.post["state.energy_fuel"], c.pre["state.energy_fuel"])),
        Claim("energy_loss_monotone", lambda c: GE(c.post["state.energy_loss"], c.pre["state.energy_loss"])),
        Claim("engine_off_burns_nothing", lambda c: IMP(NOT(_arg(c, 2)), EQ(c.post["state.pwr_fuel"], 0)), role="engine_off_burns_nothing"),
        Claim("engine_off_no_idle", lambda c: IMP(NOT(_arg(c, 2)), EQ(c.post["state.pwr_idle_fuel"], 0))),
        Claim("engine_off_requires_zero_demand", lambda c: IMP(NOT(_arg(c, 2)), EQ(c.post["state.pwr_brake"], 0))),
        Claim("no_panic", None, when="nopanic"),
    ]
    return Case(
        f"fc_step_n{n}", "C08", "FuelConverter", fc_tmpl("fc_", n),
        [Call("FuelConverter::solve_energy_consumption", [("si::Power", Sym("req")), ("si::Time", Sym("dt")), ("bool", Sym("engine_on", "bool")), ("bool", Sym("assert_limits", "bool"))])],
        assume, claims,
        bounds={"efficiency map points": n, "steps": "1 (step-inductive: arbitrary pre-state)"},
        notes=["pre-state: every state field symbolic; demand, dt, engine_on, assert_limits symbolic"],
    )


def gen_case(n):
    def assume(S):
        return gen_domain(S, "gen_", n) + [("dt > 0", S["dt"] > 0), ("pwr_aux >= 0", S["aux"] >= 0)]

    claims = [
        Claim("eta_in_(0,1]", lambda c: AND(GT(c.post["state.eta"], 0), LE(c.post["state.eta"], 1))),
        Claim("loss_nonneg", lambda c: GE(c.post["state.pwr_loss"], 0)),
        Claim("out_le_in", lambda c: LE(c.post["state.pwr_elec_prop_out"] + c.post["state.pwr_elec_aux"], c.post["state.pwr_mech_in"])),
        Claim("energy_loss_monotone", lambda c: GE(c.post["state.energy_loss"], c.pre["state.energy_loss"])),
        Claim("no_panic", None, when="nopanic"),
    ]
    return Case(
        f"gen_step_n{n}", "C08", "Generator", gen_tmpl("gen_", n),
        [Call("Generator::set_pwr_in_req", [("si::Power", Sym("req")), ("si::Power", Sym("aux")), ("si::Time", Sym("dt"))])],
        assume, claims, bounds={"efficiency map points": n, "steps": 1},
    )


def edrv_case(n):
    def assume(S):
        return edrv_domain(S, "edrv_", n) + [("dt > 0", S["dt"] > 0)] + [(f"edrv_s_{k} >= 0", S["edrv_s_" + k] >= 0) for k in ("energy_loss", "energy_mech_dyn_brake")]

    def out_le_in(c):
        # traction: mech out <= elec in ; regen: |elec in| <= |mech out|
        req = _arg(c, 0)
        return IF(GT(req, 0), LE(c.post["state.pwr_mech_prop_out"], c.post["state.pwr_elec_prop_in"]),
                  LE(ABS(c.post["state.pwr_elec_prop_in"]), ABS(c.post["state.pwr_mech_prop_out"])))

    claims = [
        Claim("eta_in_(0,1]", lambda c: AND(GT(c.post["state.eta"], 0), LE(c.post["state.eta"], 1))),
        Claim("loss_nonneg", lambda c: GE(c.post["state.pwr_loss"], 0)),
        Claim("out_le_in_both_directions", out_le_in),
        Claim("dyn_brake_nonneg", lambda c: GE(c.post["state.pwr_mech_dyn_brake"], 0)),
        Claim("dyn_brake_zero_unless_braking_beyond_regen", lambda c: IMP(XGE(_arg(c, 0), -c.pre["state.pwr_mech_regen_max"]), EQ(c.post["state.pwr_mech_dyn_brake"], 0))),
        Claim("dyn_brake_elec_le_mech", lambda c: LE(c.post["state.pwr_elec_dyn_brake"], c.post["state.pwr_mech_dyn_brake"])),
        Claim("energy_loss_monotone", lambda c: GE(c.post["state.energy_loss"], c.pre["state.energy_loss"])),
        Claim("energy_dyn_brake_monotone", lambda c: GE(c.post["state.energy_mech_dyn_brake"], c.pre["state.energy_mech_dyn_brake"])),
        Claim("no_panic", None, when="nopanic"),
    ]
    return Case(
        f"edrv_step_n{n}", "C08", "ElectricDrivetrain", edrv_tmpl("edrv_", n),
        [Call("ElectricDrivetrain::set_pwr_in_req", [("si::Power", Sym("req")), ("si::Time", Sym("dt"))])],
        assume, claims, bounds={"efficiency map points": n, "steps": 1},
    )


def res_case(ns, nc):
    def assume(S):
        return res_domain(S, "res_", ns, nc) + [("dt > 0", S["dt"] > 0), ("pwr_aux >= 0", S["aux"] >= 0), ("res_s_energy_loss >= 0", S["res_s_energy_loss"] >= 0)]

    def out_le_in(c):
        el = c.post["state.pwr_out_electrical"]
        ch = c.post["state.pwr_out_chemical"]
        return IF(GT(el, 0), LE(el, ch), LE(ABS(ch), ABS(el)))

    claims = [
        Claim("eta_in_(0,1]", lambda c: AND(GT(c.post["state.eta"], 0), LE(c.post["state.eta"], 1))),
        Claim("loss_nonneg", lambda c: GE(c.post["state.pwr_loss"], 0)),
        Claim("out_le_in_both_directions", out_le_in),
        Claim("energy_loss_monotone", lambda c: GE(c.post["state.energy_loss"], c.pre["state.energy_loss"])),
        Claim("no_panic", None, when="nopanic"),
    ]
    return Case(
        f"res_step_{ns}x{nc}", "C08", "ReversibleEnergyStorage", res_tmpl("res_", ns, nc),
        [Call("ReversibleEnergyStorage::solve_energy_consumption", [("si::Power", Sym("req")), ("si::Power", Sym("aux")), ("si::Time", Sym("dt"))])],
        assume, claims, bounds={"eta grid": f"1 x {ns} x {nc} (temperature x soc x c-rate)", "steps": 1},
        stubs={"utils::interp3d": interp3d_contract},
        notes=["utils::interp3d replaced by its contract (result within [min,max] of the map values, never Err); the contract is proved by interp3d_contract_*"],
    )


def interp3d_contract_case(nt, ns, nc):
    """free function: utils::interp3d on a symbolic grid"""
    grid = [[Sym(f"gt{i}") for i in range(nt)], [Sym(f"gs{i}") for i in range(ns)], [Sym(f"gc{i}") for i in range(nc)]]
    vals = [[[Sym(f"v{i}{j}{k}") for k in range(nc)] for j in range(ns)] for i in range(nt)]
    names = [f"v{i}{j}{k}" for i in range(nt) for j in range(ns) for k in range(nc)]

    def assume(S):
        d = []
        for ax, n in (("gt", nt), ("gs", ns), ("gc", nc)):
            for i in range(n - 1):
                d.append((f"{ax}{i} < {ax}{i+1}", S[f"{ax}{i}"] < S[f"{ax}{i+1}"]))
        for nme in names:
            d.append((f"lo <= {nme} <= hi", z3.And(S["lo"] <= S[nme], S[nme] <= S["hi"])))
        return d

    def within(c):
        v = c.retval()
        return AND(GE(v, c.S["lo"]), LE(v, c.S["hi"]))

    claims = [
        Claim("result_within_value_range", within, when="ok"),
        Claim("never_err", lambda c: False, when="err"),
        Claim("no_panic", None, when="nopanic"),
    ]
    return Case(
        f"interp3d_contract_{nt}x{ns}x{nc}", "C08", "Interp3dArgs",
        None,
        [Call("utils::interp3d", [("&[f64; 3]", [Sym("pt"), Sym("ps"), Sym("pc")]), ("&[Vec<f64>; 3]", grid), ("&Vec<Vec<Vec<f64>>>", vals)])],
        assume, claims, bounds={"grid": f"{nt} x {ns} x {nc}", "query point": "symbolic (any real)"}, free_fn=True, extra_syms=("lo", "hi"),
        notes=["lo/hi are symbolic bounds on all map values; proves the clamped trilinear interpolation never leaves the value range"],
    )


def interp1d_contract_case(n):
    def assume(S):
        d = []
        for i in range(n - 1):
            d.append((f"x{i} < x{i+1}", S[f"x{i}"] < S[f"x{i+1}"]))
        for i in range(n):
            d.append((f"lo <= y{i} <= hi", z3.And(S["lo"] <= S[f"y{i}"], S[f"y{i}"] <= S["hi"])))
        return d

    def within(c):
        v = c.retval()
        return AND(GE(v, c.S["lo"]), LE(v, c.S["hi"]))

    claims = [
        Claim("result_within_value_range", within, when="ok"),
        Claim("never_err", lambda c: False, when="err"),
        Claim("no_panic", None, when="nopanic"),
    ]
    return Case(
        f"interp1d_contract_n{n}", "C08", "Interp1dArgs", None,
        [Call("utils::interp1d", [("&f64", Sym("q")), ("&Vec<f64>", [Sym(f"x{i}") for i in range(n)]), ("&Vec<f64>", [Sym(f"y{i}") for i in range(n)]), ("bool", False)])],
        assume, claims, bounds={"points": n, "query": "symbolic (any real)", "extrapolate": False}, free_fn=True, extra_syms=("lo", "hi"),
    )


def loco_engine_off_case(kind, n=2):
    """the locomotive-level clause: a unit whose engine is commanded off consumes no fuel and no auxiliary power in that step
    (the sequence LocomotiveSimulation::solve_step drives, from an arbitrary pre-state incl. a loaded previous step)"""
    P = "loco_type.ConventionalLoco." if kind == "conv" else "loco_type.BatteryElectricLoco."

    def assume(S):
        d = loco_domain(S, kind, "", n) + [("dt > 0", S["dt"] > 0), ("the engine is commanded off in this step", S["engine_on"] == False)]  # noqa: E712
        if kind == "conv":
            d.append(("previous shaft power >= 0", S["fc_s_pwr_brake"] >= 0))
        return d

    claims = [Claim("engine off: the locomotive books no auxiliary power", lambda c: EQ(c.post["state.pwr_aux"], 0), role="engine_off_no_aux"),
              Claim("engine off: auxiliary energy does not grow", lambda c: EQ(c.post["state.energy_aux"], c.pre["state.energy_aux"]), role="engine_off_no_aux_energy")]
    if kind == "conv":
        claims += [Claim("engine off: no fuel", lambda c: EQ(c.post[P + "fc.state.pwr_fuel"], 0), role="engine_off_no_fuel"),
                   Claim("engine off: the generator carries no auxiliary load", lambda c: EQ(c.post[P + "gen.state.pwr_elec_aux"], 0), role="engine_off_no_gen_aux")]
    else:
        claims += [Claim("engine off: the battery supplies no auxiliary power", lambda c: EQ(c.post[P + "res.state.pwr_aux"], 0), role="engine_off_no_res_aux")]
    claims.append(Claim("no_panic", None, when="nopanic"))
    return Case(f"{kind}_loco_engine_off_n{n}", "C08", "Locomotive", loco_tmpl(kind, "", n), LOCO_STEP(), assume, claims,
                bounds={"locomotive": kind, "efficiency map points": n, "steps": "1 solve_step sequence with engine_on = false from an arbitrary pre-state"},
                stubs={"utils::interp1d": interp1d_contract, "utils::interp3d": interp3d_contract}, max_paths=20000, timeout_ms=60000, expect_ok=True, check_side=False)


def m_cases(tier):
    return _m_cases(tier) + [loco_engine_off_case("conv"), loco_engine_off_case("bel")]


def _m_cases(tier):
    cs = [fc_case(3), gen_case(3), edrv_case(3), res_case(2, 2), interp3d_contract_case(1, 2, 2), interp1d_contract_case(3)]
    if tier == "thorough":
        cs += [fc_case(2), fc_case(4), gen_case(4), edrv_case(4), res_case(3, 2), res_case(2, 3),
               interp3d_contract_case(2, 2, 2), interp3d_contract_case(1, 3, 3), interp1d_contract_case(2), interp1d_contract_case(4), interp1d_contract_case(5)]
    return cs
