"""C13 — the enforced profile is exactly the tightest posted restriction (and canonical)."""
from speedcommon import *  # noqa


def insert_case(n):
    def assume(S):
        return profile_domain(S, n)

    def sorted_ok(c):
        m = plen(c.post)
        conds = [XLE(c.post[f"{i}.offset"], c.post[f"{i+1}.offset"]) for i in range(m - 1)]
        return AND(*conds) if conds else True

    def no_triples(c):
        m = plen(c.post)
        conds = [NOT(XEQ(c.post[f"{i}.offset"], c.post[f"{i+2}.offset"])) for i in range(m - 2)]
        return AND(*conds) if conds else True

    def canonical(c):
        m = plen(c.post)
        conds = [NOT(XEQ(c.post[f"{i}.speed_limit"], c.post[f"{i+1}.speed_limit"])) for i in range(m - 1)]
        return AND(*conds) if conds else True

    claims = [
        Claim("enforced_limit_equals_min_of_covering_restrictions", lambda c: EQ(eval_profile_strict(c.post, c.S["x"]), expected(c, c.S["x"])), when="ret", role="exact_min"),
        Claim("profile_stays_sorted", sorted_ok, when="ret"),
        Claim("no_offset_three_times", no_triples, when="ret"),
        Claim("profile_stays_canonical (no equal-valued neighbours)", canonical, when="ret"),
        Claim("first_point_offset_unchanged", lambda c: EQ(c.post["0.offset"], c.pre["0.offset"]), when="ret"),
        Claim("no_panic", None, when="nopanic"),
    ]
    return Case(f"insert_speed_exact_n{n}", "C13", "Vec<SpeedLimitPoint>", profile_tmpl(n),
                [Call(INSERT, [("&SpeedLimit", restriction_tmpl())])], assume, claims, extra_syms=("x",),
                bounds={"profile points before the insertion": n, "restrictions inserted": "1 (inductive step: arbitrary canonical profile)", "query position": "symbolic"},
                notes=["pre-state: any sorted profile without triple offsets and without equal neighbours; restriction anywhere at/after the first point; positive speeds"],
                max_paths=20000, loop_bound=60, timeout_ms=60000)


def m_cases(tier):
    tier = "thorough"  # the full case list is cheap enough to run on every change (the tiers differ only in validation vectors)
    import C02
    ns = [1, 2, 3] if tier == "quick" else [1, 2, 3, 4, 5]
    cs = [insert_case(n) for n in ns]
    if tier == "quick":
        cs += [C02.add_speeds_case(2, 1, False, None, exact=True, prop="C13"), C02.add_speeds_case(1, 2, True, None, exact=True, prop="C13"),
               C02.add_speeds_case(1, 2, False, None, exact=True, prop="C13")]
    else:
        for he in (True, False):
            cs += [C02.add_speeds_case(2, 1, he, None, exact=True, prop="C13"), C02.add_speeds_case(1, 2, he, None, exact=True, prop="C13"),
                   C02.add_speeds_case(2, 2, he, None, exact=True, prop="C13"), C02.add_speeds_case(1, 3, he, None, exact=True, prop="C13")]
        cs.append(C02.add_speeds_case(1, 1, False, ("MassPerBrake", "TpLessThanRp"), exact=True, prop="C13"))
    return cs
