"""C19 — histories and step counters stay aligned through the whole object tree."""
from traincommon import *  # noqa
import C14

I0 = Sym("i0", "int")
IK = Sym("k", "int")


def with_counter(t, state_key="state"):
    t[state_key]["i"] = I0
    return t


def set_interval(t, iv):
    t["save_interval"] = iv
    return t


def iv_tmpl(kind):
    return None if kind == "None" else IK


def base_assume(S, kind):
    d = [("step counter i >= 1", S["i0"] >= 1), ("i below 2^32", S["i0"] < 2**32)]
    if kind != "None":
        d.append(("save interval k >= 1", z3.And(S["k"] >= 1, S["k"] < 2**32)))
    return d


def saved_now(c, kind):
    """1 if this step's state is recorded, else 0"""
    if kind == "None":
        return 0
    return IF(XEQ(c.S["i0"] % c.S["k"], 0), 1, 0) if is_sym(c) else (1 if c.S["i0"] % c.S["k"] == 0 else 0)


def is_sym(c):
    from values import is_z3
    return any(is_z3(v) for v in c.S.values())


def hlen(c, path):
    return c.post[path + ".i"].len()


def comp_case(kind_c, ivk):
    ty, tm, pfx = {"fc": ("FuelConverter", fc_tmpl, "fc_"), "gen": ("Generator", gen_tmpl, "gen_"), "edrv": ("ElectricDrivetrain", edrv_tmpl, "edrv_"), "res": ("ReversibleEnergyStorage", res_tmpl, "res_")}[kind_c]
    t = set_interval(with_counter(tm(pfx, 2) if kind_c != "res" else tm(pfx)), iv_tmpl(ivk))
    claims = [
        Claim("step counter advanced by one", lambda c: XEQ(c.post["state.i"], c.S["i0"] + 1)),
        Claim("history grew by one exactly when i is a multiple of the interval (never with saving disabled)", lambda c: _eq_int(c, hlen(c, "history"), saved_now(c, ivk)), role="history_growth"),
        Claim("no_panic", None, when="nopanic"),
    ]
    return Case(f"{kind_c}_save_step_{ivk}", "C19", ty, t, [Call(f"{ty}::save_state", []), Call(f"{ty}::step", [])], lambda S: base_assume(S, ivk), claims,
                bounds={"component": kind_c, "save interval": "None" if ivk == "None" else "Some(k), k symbolic", "history length before": 0})


def _eq_int(c, a, b):
    from values import is_z3
    if is_z3(a) or is_z3(b):
        return to_z3_int(a) == to_z3_int(b)
    return a == b


def to_z3_int(v):
    from values import is_z3
    return v if is_z3(v) else z3.IntVal(v)


def loco_tree(kind, ivk, p=""):
    t = loco_tmpl(kind, p, 2)
    with_counter(t)
    set_interval(t, iv_tmpl(ivk))
    comp = t["loco_type"].payload[0]
    for k in comp:
        if k in ("fc", "gen", "res", "edrv"):
            with_counter(comp[k])
            set_interval(comp[k], iv_tmpl(ivk))
    return t


def loco_paths(kind):
    P = {"conv": "loco_type.ConventionalLoco.", "bel": "loco_type.BatteryElectricLoco.", "hyb": "loco_type.HybridLoco."}[kind]
    return [P + x for x in {"conv": ("fc", "gen", "edrv"), "bel": ("res", "edrv"), "hyb": ("fc", "gen", "res", "edrv")}[kind]]


def loco_case(kind, ivk):
    comps = loco_paths(kind)

    def counters(c):
        return AND(XEQ(c.post["state.i"], c.S["i0"] + 1), *[XEQ(c.post[p + ".state.i"], c.S["i0"] + 1) for p in comps])

    def lengths(c):
        exp = saved_now(c, ivk)
        return AND(_eq_int(c, hlen(c, "history"), exp), *[_eq_int(c, hlen(c, p + ".history"), exp) for p in comps])

    claims = [Claim("all nested step counters advanced together", counters, role="counters_aligned"),
              Claim("all nested histories grew together, exactly when i is a multiple of the interval", lengths, role="histories_aligned"),
              Claim("no_panic", None, when="nopanic")]
    return Case(f"loco_{kind}_save_step_{ivk}", "C19", "Locomotive", loco_tree(kind, ivk),
                [Call("<Locomotive as LocoTrait>::save_state", []), Call("<Locomotive as LocoTrait>::step", [])], lambda S: base_assume(S, ivk), claims,
                bounds={"locomotive": kind, "save interval": ivk, "pre-state": "all counters equal (i0), all histories empty"})


def consist_case(comp, ivk):
    kinds = {"C": "conv", "B": "bel", "H": "hyb"}
    locos = [loco_tree(kinds[ch], ivk, f"l{j}_") for j, ch in enumerate(comp)]
    st = auto_state("ConsistState", "cs_")
    st["i"] = I0
    recv = {"loco_vec": locos, "pdct": Variant("RESGreedy", {}), "assert_limits": True, "state": st, "save_interval": iv_tmpl(ivk), "n_res_equipped": NONE_RAW}

    def all_paths():
        out = []
        for j, ch in enumerate(comp):
            out.append(f"loco_vec.{j}")
            out += [f"loco_vec.{j}." + p for p in loco_paths(kinds[ch])]
        return out

    def counters(c):
        return AND(XEQ(c.post["state.i"], c.S["i0"] + 1), *[XEQ(c.post[p + ".state.i"], c.S["i0"] + 1) for p in all_paths()])

    def lengths(c):
        exp = saved_now(c, ivk)
        return AND(_eq_int(c, hlen(c, "history"), exp), *[_eq_int(c, hlen(c, p + ".history"), exp) for p in all_paths()])

    claims = [Claim("all nested step counters advanced together", counters, role="counters_aligned"),
              Claim("all nested histories grew together, exactly when i is a multiple of the interval", lengths, role="histories_aligned"),
              Claim("no_panic", None, when="nopanic")]
    return Case(f"consist_{comp}_save_step_{ivk}", "C19", "Consist", recv, [Call("<Consist as LocoTrait>::save_state", []), Call("<Consist as LocoTrait>::step", [])],
                lambda S: base_assume(S, ivk), claims, bounds={"composition": comp, "save interval": ivk})


def propagate_case(comp, new_iv):
    """Consist::set_save_interval reaches every nested object, whatever the intervals were before"""
    kinds = {"C": "conv", "B": "bel", "H": "hyb"}
    locos = []
    for j, ch in enumerate(comp):
        t = loco_tree(kinds[ch], "None", f"l{j}_")
        # unequal, arbitrary previous settings
        t["save_interval"] = Sym(f"p{j}", "int")
        cp = t["loco_type"].payload[0]
        for q, k in enumerate(cp):
            cp[k]["save_interval"] = Sym(f"p{j}_{q}", "int") if q % 2 == 0 else None
        locos.append(t)
    st = auto_state("ConsistState", "cs_")
    recv = {"loco_vec": locos, "pdct": Variant("RESGreedy", {}), "assert_limits": True, "state": st, "save_interval": None, "n_res_equipped": NONE_RAW}

    def paths():
        out = []
        for j, ch in enumerate(comp):
            out.append(f"loco_vec.{j}")
            out += [f"loco_vec.{j}." + p for p in loco_paths(kinds[ch])]
        return out

    def reached(c):
        def same(v):
            if new_iv == "None":
                return v is None
            return v is not None and XEQ(v, c.S["k"])
        return AND(same(c.post["save_interval"]), *[same(c.post[p + ".save_interval"]) for p in paths()])

    def assume(S):
        d = [(f"{n} >= 1", S[n] >= 1) for n in S if n.startswith("p")]
        if new_iv != "None":
            d.append(("k >= 1", S["k"] >= 1))
        return d

    return Case(f"consist_{comp}_set_save_interval_{new_iv}", "C19", "Consist", recv, [Call("Consist::set_save_interval", [("Option<usize>", None if new_iv == "None" else IK)])],
                assume, [Claim("the new interval reached the consist, every locomotive and every powertrain component", reached, role="interval_propagation"), Claim("no_panic", None, when="nopanic")],
                bounds={"composition": comp, "new interval": new_iv})


def slts_propagate_case(comp, new_iv, same_as_top):
    """SpeedLimitTrainSim::set_save_interval reaches consist, locomotives, components and the friction brake,
    also when the top-level field already holds the requested value"""
    kinds = {"C": "conv", "B": "bel", "H": "hyb"}
    locos = []
    for j, ch in enumerate(comp):
        t = loco_tree(kinds[ch], "None", f"l{j}_")
        t["save_interval"] = Sym(f"p{j}", "int")
        cp = t["loco_type"].payload[0]
        for q, k in enumerate(cp):
            cp[k]["save_interval"] = Sym(f"p{j}_{q}", "int") if q % 2 == 0 else None
        locos.append(t)
    consist = {"loco_vec": locos, "pdct": Variant("RESGreedy", {}), "assert_limits": True, "state": auto_state("ConsistState", "cs_"), "save_interval": Sym("pc", "int"), "n_res_equipped": NONE_RAW}
    recv = slts_tmpl(consist)
    recv["fric_brake"]["save_interval"] = None
    new_t = None if new_iv == "None" else IK
    recv["save_interval"] = new_t if same_as_top else (Sym("ptop", "int") if new_iv == "None" else None)

    def paths():
        out = ["loco_con", "fric_brake"]
        for j, ch in enumerate(comp):
            out.append(f"loco_con.loco_vec.{j}")
            out += [f"loco_con.loco_vec.{j}." + p for p in loco_paths(kinds[ch])]
        return out

    def reached(c):
        def same(v):
            if new_iv == "None":
                return v is None
            return v is not None and XEQ(v, c.S["k"])
        return AND(same(c.post["save_interval"]), *[same(c.post[p + ".save_interval"]) for p in paths()])

    def assume(S):
        return [(f"{n} >= 1", S[n] >= 1) for n in S if n.startswith("p") or n == "k"]

    return Case(f"speed_limit_sim_set_save_interval_{comp}_{new_iv}_{'top_already_set' if same_as_top else 'top_differs'}", "C19", "SpeedLimitTrainSim", recv,
                [Call("SpeedLimitTrainSim::set_save_interval", [("Option<usize>", new_t)])], assume,
                [Claim("the new interval reached the train, its friction brake, the consist, every locomotive and every component", reached, role="interval_propagation"), Claim("no_panic", None, when="nopanic")],
                bounds={"composition": comp, "new interval": new_iv, "top-level field before": "equal to the request" if same_as_top else "different"})


def ssts_step_case(ivk, npts=2, i=1, repeated=False):
    """SetSpeedTrainSim::step: solve -> save -> increment; the saved entry is the solved state of this step"""
    t = C14.ssts_tmpl(i, npts)
    t["save_interval"] = iv_tmpl(ivk)
    t["loco_con"]["save_interval"] = iv_tmpl(ivk)
    t["loco_con"]["state"]["i"] = i
    t["loco_con"]["loco_vec"][0]["save_interval"] = iv_tmpl(ivk)
    t["loco_con"]["loco_vec"][0]["state"]["i"] = i
    base = C14.step_case(i, npts, strict_time=not repeated)

    def assume(S):
        d = base.assume(S)
        if ivk != "None":
            d.append(("save interval k >= 1", z3.And(S["k"] >= 1, S["k"] < 2**32)))
        return d

    def exp(c):
        if ivk == "None":
            return 0
        return IF(XEQ(i % c.S["k"], 0), 1, 0) if is_sym(c) else (1 if i % c.S["k"] == 0 else 0)

    def saved_is_solved_state(c):
        n = hlen(c, "history")
        if n == 0:
            return True
        # when an entry was written it carries this step's solved time and the pre-increment counter
        return AND(EQ(c.post["history.time.0"], c.S[f"t{i}"]), XEQ(c.post["history.i.0"], i))

    claims = [
        Claim("train, consist and locomotive counters advanced together", lambda c: AND(XEQ(c.post["state.i"], i + 1), XEQ(c.post["loco_con.state.i"], i + 1), XEQ(c.post["loco_con.loco_vec.0.state.i"], i + 1)), role="counters_aligned"),
        Claim("train, consist and locomotive histories grew together", lambda c: AND(_eq_int(c, hlen(c, "history"), exp(c)), _eq_int(c, hlen(c, "loco_con.history"), exp(c)), _eq_int(c, hlen(c, "loco_con.loco_vec.0.history"), exp(c))), role="histories_aligned"),
        Claim("order is solve, save, increment: the saved entry is this step's solved state", saved_is_solved_state, role="solve_save_increment"),
        Claim("an error from solve leaves counters and histories untouched", lambda c: AND(XEQ(c.post["state.i"], i), XEQ(c.post["loco_con.state.i"], i), _eq_int(c, hlen(c, "history"), 0), _eq_int(c, hlen(c, "loco_con.history"), 0)), when="err", role="err_leaves_counters"),
        Claim("no_panic", None, when="nopanic"),
    ]
    return Case(f"set_speed_sim_step_{ivk}_i{i}" + ("_repeated_time" if repeated else ""), "C19", "SetSpeedTrainSim", t, [Call("SetSpeedTrainSim::step", [])], assume, claims,
                bounds={"trace points": npts, "step": i, "save interval": ivk, "consist": "one DummyLoco", "time stamps": "may repeat (dt = 0)" if repeated else "strictly increasing"},
                max_paths=20000, timeout_ms=60000, check_side=not repeated)  # with dt = 0 the physics divides by zero: not this property's subject


# ---------------------------------------------------------------- simulation drivers: walk() of the locomotive / consist simulations, step() of the speed-limited train


def _solve_stub(eng, st, args):
    """the physics of one step replaced by its effect on the bookkeeping this property is about: none; it either succeeds or fails
    (the real solve_step functions are executed by the harnesses of C01 / C09 / C11 / C12, which also show they leave counters alone)"""
    from values import Enum, UNIT, Opaque
    return [(st, Enum("Result", 0, [UNIT])), (st.fork(), Enum("Result", 1, [Opaque("anyhow::Error")]))]


def _conc_tree(t, iv):
    """concrete counters (1) and a concrete save interval everywhere in a locomotive template"""
    t["state"]["i"] = 1
    t["save_interval"] = iv
    comp = t["loco_type"].payload[0]
    for k in comp:
        if k in ("fc", "gen", "res", "edrv"):
            comp[k]["state"]["i"] = 1
            comp[k]["save_interval"] = iv
    return t


def _expected_entries(iv, steps_done):
    """walk(): one save before the first step, then one per executed step, each recorded when the counter is a multiple of the interval"""
    if iv is None:
        return 0
    idx = [1] + list(range(1, steps_done + 1))
    return sum(1 for i in idx if i % iv == 0)


def sim_walk_case(sim, comp, iv, n=3):
    from values import UNIT as _U  # noqa
    kinds = {"C": "conv", "B": "bel", "H": "hyb"}
    trace = {"time": [Sym(f"t{k}") for k in range(n)], "pwr": [Sym(f"p{k}") for k in range(n)], "engine_on": [True] * n}
    if sim == "loco":
        unit = _conc_tree(loco_tmpl(kinds[comp], "", 2, assert_limits=False), iv)
        recv = {"loco_unit": unit, "power_trace": trace, "i": 1}
        ty, units, top = "LocomotiveSimulation", [("loco_unit", kinds[comp])], "loco_unit"
    else:
        locos = [_conc_tree(loco_tmpl(kinds[ch], f"l{j}_", 2, assert_limits=False), iv) for j, ch in enumerate(comp)]
        st = auto_state("ConsistState", "cs_")
        st["i"] = 1
        recv = {"loco_con": {"loco_vec": locos, "pdct": Variant("RESGreedy", {}), "assert_limits": False, "state": st, "save_interval": iv, "n_res_equipped": NONE_RAW}, "power_trace": trace, "i": 1}
        ty, units, top = "ConsistSimulation", [(f"loco_con.loco_vec.{j}", kinds[ch]) for j, ch in enumerate(comp)], "loco_con"

    def paths():
        out = [top] if sim == "consist" else []
        for (p, k) in units:
            out.append(p)
            out += [p + "." + x for x in loco_paths(k)]
        return out

    def aligned(c):
        """all counters equal the driver's counter; all histories have the same length, the one walk() prescribes for the steps done"""
        i_top = c.post["i"]
        steps_done = i_top - 1
        exp = _expected_entries(iv, steps_done)
        return AND(*[XEQ(c.post[p + ".state.i"], i_top) for p in paths()], *[_eq_int(c, hlen(c, p + ".history"), exp) for p in paths()])

    def entries_same_step(c):
        """entry k of every history carries the same step index"""
        ref = paths()[0]
        nent = hlen(c, ref + ".history")
        conds = []
        for p in paths()[1:]:
            for k in range(nent):
                conds.append(XEQ(c.post[f"{p}.history.i.{k}"], c.post[f"{ref}.history.i.{k}"]))
        return AND(*conds) if conds else True

    def assume(S):
        d = [(f"time stamps increase: t{k} < t{k+1}", S[f"t{k}"] < S[f"t{k+1}"]) for k in range(n - 1)]
        # the stubbed physics does not look at these; they make the counterexamples replayable on the real build, whose solve_step does
        d += [(f"zero power demand p{k} (replayability)", S[f"p{k}"] == 0) for k in range(n)]
        us = [("", comp)] if sim == "loco" else [(f"l{j}_", ch) for j, ch in enumerate(comp)]
        for (pp, ch) in us:
            d += loco_domain(S, kinds[ch], pp, 2)
            if ch == "H":
                # a hybrid always books 50 kW of auxiliary load on its generator: ratings large enough for the real build to accept the step
                d += [(f"{pp}hybrid ratings cover the fixed 50 kW auxiliary load (replayability)",
                       z3.And(S[pp + "gen_pwr_out_max"] >= 1000000, S[pp + "fc_pwr_out_max"] >= 10000000, S[pp + "fc_pwr_out_max_init"] >= 5000000, S[pp + "fc_s_pwr_brake"] >= 0))]
        return d

    claims = [
        Claim("a completed walk executes every step of the trace", lambda c: XEQ(c.post["i"], n), when="ok", role="walk_completes"),
        Claim("counters equal and histories of equal, prescribed length after a completed walk", aligned, when="ok", role="walk_aligned"),
        Claim("counters equal and histories of equal, prescribed length after a walk that ends with an error", aligned, when="err", role="walk_aligned_on_error"),
        Claim("entry k of every history refers to the same step", entries_same_step, role="entries_same_step"),
        Claim("no_panic", None, when="nopanic"),
    ]
    c = Case(f"{sim}_sim_walk_{comp}_iv{iv}_n{n}", "C19", ty, recv, [Call(f"{ty}::walk", [])], assume, claims,
             bounds={"simulation": ty, "units": comp, "save interval": iv, "trace points": n, "physics": "solve_step stubbed: succeeds or fails, no effect on counters / histories"},
             stubs={f"{ty}::solve_step": _solve_stub}, expect_ok=True, max_paths=20000, check_side=False)
    c.no_tv = True  # the concrete runs would execute the real solve_step on arbitrary powers; the stubbed driver is what is compared
    return c


def slts_step_case(iv):
    """SpeedLimitTrainSim::step with the physics stubbed: train, consist, locomotive and friction brake advance and record together"""
    recv = slts_tmpl(dummy_consist_tmpl())
    recv["save_interval"] = iv
    recv["loco_con"]["save_interval"] = iv
    recv["loco_con"]["loco_vec"][0]["save_interval"] = iv
    recv["fric_brake"]["save_interval"] = iv
    for t in (recv, recv["loco_con"], recv["loco_con"]["loco_vec"][0], recv["fric_brake"]):
        t["state"]["i"] = I0
    paths = ["", "loco_con.", "loco_con.loco_vec.0.", "fric_brake."]

    def exp(c):
        if iv is None:
            return 0
        return IF(XEQ(c.S["i0"] % iv, 0), 1, 0) if is_sym(c) else (1 if c.S["i0"] % iv == 0 else 0)

    claims = [
        Claim("train, consist, locomotive and friction-brake counters advanced together", lambda c: AND(*[XEQ(c.post[p + "state.i"], c.S["i0"] + 1) for p in paths]), when="ok", role="slts_counters_aligned"),
        Claim("their histories grew together, exactly when i is a multiple of the interval", lambda c: AND(*[_eq_int(c, hlen(c, p + "history"), exp(c)) for p in paths]), when="ok", role="slts_histories_aligned"),
        Claim("an error from solve leaves counters and histories untouched", lambda c: AND(*[XEQ(c.post[p + "state.i"], c.S["i0"]) for p in paths], *[_eq_int(c, hlen(c, p + "history"), 0) for p in paths]), when="err", role="slts_err_leaves_counters"),
        Claim("no_panic", None, when="nopanic"),
    ]
    c = Case(f"speed_limit_sim_step_iv{iv}", "C19", "SpeedLimitTrainSim", recv, [Call("SpeedLimitTrainSim::step", [])],
             lambda S: [("step counter i >= 1", S["i0"] >= 1), ("i below 2^32", S["i0"] < 2**32)], claims,
             bounds={"save interval": iv, "consist": "one DummyLoco", "physics": "solve_step stubbed: succeeds or fails, no effect on counters / histories"},
             stubs={"SpeedLimitTrainSim::solve_step": _solve_stub}, expect_ok=True, max_paths=20000, check_side=False)
    c.no_tv = True
    return c


def frame_cases(tier):
    """what the stubbed-physics driver cases above rely on: solving a step leaves every step counter and every history alone.
    The component / locomotive step harnesses of C08 and C01 (engine on and off, all demands) are run with that frame claim."""
    import C08
    import C01
    out = []
    src = [c for c in C08.m_cases("quick") if c.recv_ty in ("FuelConverter", "Generator", "ElectricDrivetrain", "ReversibleEnergyStorage")]
    src += [C01.conv_loco_case(2), C01.bel_loco_case(2)]
    for c in src:
        if c.recv_ty == "Locomotive":
            kind = "conv" if "conv" in c.name else "bel"
            paths = [""] + [p + "." for p in loco_paths(kind)]
        else:
            paths = [""]

        def frame(ctx, paths=paths):
            return AND(*[XEQ(ctx.post[p + "state.i"], ctx.pre[p + "state.i"]) for p in paths], *[_eq_int(ctx, hlen(ctx, p + "history"), 0) for p in paths])
        # an arbitrary step counter (a counter reset to its default 1 must show)
        if c.recv_ty == "Locomotive":
            c.recv["state"]["i"] = I0
            comp = c.recv["loco_type"].payload[0]
            for k in comp:
                if k in ("fc", "gen", "res", "edrv"):
                    comp[k]["state"]["i"] = I0
        else:
            c.recv["state"]["i"] = I0
        old_assume = c.assume
        c.assume = (lambda S, old=old_assume: (old(S) if old else []) + [("step counter i0 >= 2", z3.And(S["i0"] >= 2, S["i0"] < 2**32))])
        c.prop = "C19"
        c.name = "frame_" + c.name
        c.claims = [Claim("solving a step leaves step counters and histories untouched (accepted steps)", frame, when="ok", role="solve_leaves_counters"),
                    Claim("solving a step leaves step counters and histories untouched (rejected steps)", frame, when="err", role="solve_leaves_counters_on_error")]
        c.check_side = False
        c.no_tv = True
        out.append(c)
    return out


def m_cases(tier):
    tier = "thorough"  # the full case list is cheap enough to run on every change (the tiers differ only in validation vectors)
    cs = frame_cases(tier)
    cs += [sim_walk_case("loco", "C", 1), sim_walk_case("loco", "B", 2), sim_walk_case("loco", "H", None), sim_walk_case("consist", "CB", 1), sim_walk_case("consist", "HB", 2)]
    cs += [slts_step_case(None), slts_step_case(1), slts_step_case(3)]
    if tier == "thorough":
        cs += [sim_walk_case("loco", "C", 2, 4), sim_walk_case("loco", "B", 1, 4), sim_walk_case("loco", "H", 3, 5), sim_walk_case("consist", "CBC", 2, 4), sim_walk_case("consist", "CB", None), sim_walk_case("consist", "BH", 1, 4)]
    for ivk in ("Some", "None"):
        for kc in ("fc", "gen", "edrv", "res"):
            cs.append(comp_case(kc, ivk))
        cs += [loco_case("conv", ivk), loco_case("bel", ivk), loco_case("hyb", ivk), consist_case("CB", ivk), consist_case("HC", ivk)]
        cs.append(ssts_step_case(ivk))
        cs.append(ssts_step_case(ivk, repeated=True))
    cs += [propagate_case("CB", "Some"), propagate_case("CB", "None")]
    cs += [slts_propagate_case("CB", "Some", True), slts_propagate_case("CB", "Some", False), slts_propagate_case("CB", "None", True), slts_propagate_case("CB", "None", False)]
    if tier == "thorough":
        for ivk in ("Some", "None"):
            cs += [consist_case("CBC", ivk), consist_case("BB", ivk), ssts_step_case(ivk, 3, 2)]
        cs += [propagate_case("CBC", "Some"), propagate_case("BCB", "None")]
    return cs
