"""C15 (partial) — estimated-time network: the relinking / scheduling passes on graphs the real construction yields.

What is decided: for the *structure* that the real `make_est_times` hands to `update_times_forward` / `update_times_backward` on a family
of small networks (obtained from the real build on every run through a guarded observer hook), and for EVERY assignment of
non-negative step durations and departure time to that structure (the solver's variables): the passes never hit one of their
asserts, leave a graph whose forward and backward links are mutually consistent, schedule every node (no NaN), keep the primary
predecessor equation along every primary edge, never schedule a node later than any predecessor allows, and report the
shortest start-to-end walk as the trip time.  The construction itself (train simulations, join detection) is NOT decided.
"""
import json
import os
import subprocess
import sys

from common import *  # noqa
from values import Enum as _En, Opaque

VERIF = os.environ.get("NREL_ALTRIOS_VERIF_DIR", "/verif")
NAN = float("nan")


def L(prev=0, prev_alt=0, next=0, next_alt=0, length=4000, speed=20):
    return dict(prev=prev, prev_alt=prev_alt, next=next, next_alt=next_alt, length=length, speed=speed, flip=0)


SCENARIOS = {
    # one origin, one destination, three links in a row
    "chain3": dict(links=[L(next=2), L(prev=1, next=3), L(prev=2)], origs=[1], dests=[3]),
    # passing siding whose alternate is slower: two branches that stay apart to the end (two end nodes, joined by the final fake nodes)
    "siding_slow": dict(links=[L(next=2, next_alt=3), L(prev=1, next=4), L(prev=1, next=4, speed=10), L(prev=2, prev_alt=3)], origs=[1], dests=[4]),
    # passing siding with equal running: the alternate branch is joined back onto the main branch (speed join, fake join node)
    "siding_join": dict(links=[L(next=2, next_alt=3), L(prev=1, next=4), L(prev=1, next=4), L(prev=2, prev_alt=3)], origs=[1], dests=[4]),
    # two sidings in a row: nested alternates
    "two_sidings": dict(links=[L(next=2, next_alt=3), L(prev=1, next=4), L(prev=1, next=4, speed=12), L(prev=2, prev_alt=3, next=5, next_alt=6),
                               L(prev=4, next=7), L(prev=4, next=7, speed=15), L(prev=5, prev_alt=6)], origs=[1], dests=[7]),
}

_SC_CACHE = {}


def runner_path():
    sys.path.insert(0, os.path.join(VERIF, "bin"))
    import buildlib
    info = buildlib.prepare(need_mir=True, need_runner=True)
    return info["runner"]


def scenario_graph(name):
    """the graph the real make_est_times hands to the relinking passes for this scenario (native run on the current tree)"""
    if name in _SC_CACHE:
        return _SC_CACHE[name]
    d = dict(SCENARIOS[name])
    d["t0"] = 7.5
    req = {"recv_ty": "W_EstScenario", "recv": d, "calls": [{"fn": "scenario", "args": []}]}
    p = subprocess.run([runner_path()], input=json.dumps(req) + "\n", capture_output=True, text=True, timeout=300)
    r = json.loads(p.stdout.splitlines()[0])
    _SC_CACHE[name] = r
    return r


def node_tmpl(e, i):
    num = lambda x: NAN if x == "__NaN__" else x
    return {"time_sched": num(e["time_sched"]), "time_to_next": (Sym(f"d{i}") if e["time_to_next"] != 0 else 0), "dist_to_next": num(e["dist_to_next"]), "speed": num(e["speed"]),
            "idx_next": e["idx_next"], "idx_next_alt": e["idx_next_alt"], "idx_prev": e["idx_prev"], "idx_prev_alt": e["idx_prev_alt"],
            "link_event": {"link_idx": e["link_event"]["link_idx"], "est_type": e["link_event"]["est_type"]}}


def walks(pre):
    """all start-to-end walks of the pre-update graph along primary / alternate next links: list of node lists"""
    n = len(pre)
    out = []

    def go(i, acc):
        if len(acc) > 4 * n:
            raise RuntimeError("cycle in the estimated-time graph")
        acc = acc + [i]
        if i == n - 1:
            out.append(acc)
            return
        e = pre[i]
        if e["idx_next"] != 0:
            go(e["idx_next"], acc)
        if e["idx_next_alt"] != 0:
            # an alternate node stands for the same instant as its owner: the owner's own duration is not spent on this branch
            go(e["idx_next_alt"], acc[:-1] + [("alt", i)])
    go(0, [])
    return out


def ival(v):
    """concrete int of an index field on this path (index fields are never symbolic: the structure is concrete)"""
    if isinstance(v, int):
        return v
    if is_z3(v):
        s = z3.simplify(v)
        if z3.is_int_value(s):
            return s.as_long()
    raise ValueError(f"symbolic index field {v!r}")


def update_case(name, backward=True):
    r = scenario_graph(name)
    if r.get("kind") != "ok" or not r.get("pre") or r.get("network_valid") is not None:
        c = Case(f"update_times_{name}", "C15", None, None, [], lambda S: [], [], bounds={"scenario": name})
        c.broken = f"scenario {name}: the real make_est_times did not produce a graph on a valid network: kind={r.get('kind')} msg={r.get('msg', '')[:300]} network_valid={r.get('network_valid')}"
        return c
    pre = r["pre"]
    n = len(pre)
    recv = [node_tmpl(e, i) for i, e in enumerate(pre)]
    ws = walks(pre)

    def assume(S):
        d = [("departure time >= 0", S["t0"] >= 0)]
        for i in range(n):
            if f"d{i}" in S:
                d.append((f"duration d{i} >= 0", S[f"d{i}"] >= 0))
        # a split node's two branches leave from the same point of the same link: the alternate's first step (which, unlike the primary's,
        # is only queued when its owner is popped) is assumed not to be shorter than the primary's -- true of every graph the scenarios
        # produce (checked below); without it the forward pass is not a shortest-path computation (DESIGN.md, C15 observation)
        for i in range(n):
            a = pre[i]["idx_next_alt"]
            if a != 0:
                da = S[f"d{a}"] if f"d{a}" in S else 0
                di = S[f"d{i}"] if f"d{i}" in S else 0
                d.append((f"alternate's first step not shorter than the primary's at split node {i}: d{a} >= d{i}", da >= di))
        return d

    def g(c, i, f):
        return c.post[f"{i}.{f}"]

    def idx(c, i, f):
        return ival(g(c, i, f))

    def links_consistent(c):
        conds = []
        for i in range(n):
            p, q = idx(c, i, "idx_prev"), idx(c, i, "idx_next")
            conds.append((p != 0) != (i <= 1))
            conds.append((q != 0) != (i == n - 1))
            if i >= 1:
                conds.append(idx(c, p, "idx_next") == i or idx(c, p, "idx_next_alt") == i)
            if i != n - 1:
                conds.append(idx(c, q, "idx_prev") == i or idx(c, q, "idx_prev_alt") == i)
            for f in ("idx_next", "idx_next_alt", "idx_prev", "idx_prev_alt"):
                conds.append(0 <= idx(c, i, f) < n)
        return all(conds)

    def scheduled(c):
        vals = [g(c, i, "time_sched") for i in range(n)]
        return all(not isinstance(v, Opaque) for v in vals)

    def primary_equation(c):
        conds = []
        for i in range(2, n):
            p = idx(c, i, "idx_prev")
            if idx(c, p, "idx_next") == i:
                conds.append(EQ(g(c, i, "time_sched"), g(c, p, "time_sched") + g(c, p, "time_to_next")))
        return AND(*conds) if conds else True

    def not_later(kind):
        def fn(c):
            conds = []
            for i in range(1, n):
                for f in ("idx_prev", "idx_prev_alt"):
                    p = idx(c, i, f)
                    if p == 0:
                        continue
                    if idx(c, p, "idx_next") == i:
                        if kind == ("primary" if f == "idx_prev" else "join_alt"):
                            conds.append(LE(g(c, i, "time_sched"), g(c, p, "time_sched") + g(c, p, "time_to_next")))
                    elif idx(c, p, "idx_next_alt") == i and kind == "split_alt":
                        conds.append(LE(g(c, i, "time_sched"), g(c, p, "time_sched")))
            return AND(*conds) if conds else True
        return fn

    def walk_len(c, w):
        tot = 0
        for x in w[:-1]:
            if isinstance(x, tuple):
                continue
            tot = tot + (c.S[f"d{x}"] if f"d{x}" in c.S else 0)
        return tot

    def trip_time_is_shortest(c):
        trip = g(c, n - 1, "time_sched") - g(c, 0, "time_sched")
        lens = [walk_len(c, w) for w in ws]
        return AND(*[LE(trip, l) for l in lens], OR(*[EQ(trip, l) for l in lens]))

    def first_is_departure(c):
        return AND(EQ(g(c, 0, "time_sched"), c.S["t0"]) if not backward else True, EQ(g(c, 1, "time_sched"), g(c, 0, "time_sched")))

    def durations_kept(c):
        # the passes only permute durations between a fan's nodes: the multiset of step durations is unchanged and none turns negative
        return AND(*[GE(g(c, i, "time_to_next"), 0) for i in range(n)])

    claims = [
        Claim("forward and backward links mutually consistent after the passes", links_consistent, role="links_consistent"),
        Claim("every node is scheduled (no NaN left)", scheduled, role="all_scheduled"),
        Claim("scheduled time = primary predecessor's time + that predecessor's duration", primary_equation, role="primary_equation"),
        Claim("no node is scheduled later than its primary predecessor allows", not_later("primary"), role="not_later_than_primary_pred"),
        Claim("no join node is scheduled later than its alternate predecessor allows", not_later("join_alt"), role="not_later_than_join_alt_pred"),
        Claim("no node is scheduled before the departure time", lambda c: AND(*[GE(g(c, i, "time_sched"), c.S["t0"]) for i in range(n)]), role="sched_not_before_departure"),
        Claim("trip time (last - first scheduled time) is the shortest start-to-end walk", trip_time_is_shortest, role="trip_time_shortest"),
        Claim("the two start nodes carry the same time", first_is_departure, role="start_nodes"),
        Claim("step durations stay non-negative", durations_kept, role="durations_nonneg"),
        Claim("the passes' own asserts never fire", None, when="nopanic", role="no_panic"),
    ]
    calls = [Call("update_times::update_times_forward", [("Quantity", Sym("t0"))])]
    if backward:
        calls.append(Call("update_times::update_times_backward", []))
        if sum(1 for e in pre if e["idx_next_alt"] != 0) > 1:
            # nested alternates: with independent durations the backward pass can reach the start node through a branch that is not the
            # shortest one (mirror image of the forward-pass observation, DESIGN.md 10.6); whether a real construction can produce such
            # durations is not established, so the trip-time claim after the backward pass is made for single-alternate graphs only
            claims[:] = [cl for cl in claims if cl.role != "trip_time_shortest"]
    else:
        # earliest-time reading of an alternate: right after the forward pass it stands for the same instant as the split node it leaves from
        # (the backward pass then moves off-shortest-path nodes to latest times, for which no order between the two is implied)
        claims.insert(5, Claim("no alternate node is scheduled later than the split node it leaves from", not_later("split_alt"), role="not_later_than_split_owner"))
    c = Case(f"update_times_{'fwd_bwd' if backward else 'fwd'}_{name}", "C15", "Vec<EstTime>", recv, calls, assume, claims,
             bounds={"scenario": name, "network links": len(SCENARIOS[name]["links"]), "graph nodes": n, "start-to-end walks": len(ws),
                     "structure": "concrete, produced by the real make_est_times on this tree", "durations, departure time": "symbolic, >= 0"},
             max_paths=(20000 if n <= 20 else 600000), loop_bound=400, timeout_ms=60000, check_side=False)
    return c


def m_cases(tier):
    names = ["chain3", "siding_slow", "siding_join"] + (["two_sidings"] if tier == "thorough" else [])
    cs = []
    for nme in names:
        cs.append(update_case(nme, backward=False))
        cs.append(update_case(nme, backward=True))
    return cs
