"""C15 (partial) — estimated-time network: the relinking / scheduling passes on graphs the real construction yields.

What is decided: for the *structure* that the real `make_est_times` hands to `update_times_forward` / `update_times_backward` on a family
of small networks (obtained from the real build on every run through a guarded observer hook), and for EVERY assignment of
non-negative step durations and departure time to that structure (the solver's variables): the passes never hit one of their
asserts, leave a graph whose forward and backward links are mutually consistent, schedule every node (no NaN), keep the primary
predecessor equation along every primary edge, never schedule a node later than any predecessor allows, and report the
shortest start-to-end walk as the trip time.  The construction itself (train simulations, join detection) is NOT decided.
"""
import json
import os
import subprocess
import sys

from common import *  # noqa
from values import Enum as _En, Opaque, is_z3
from tmpl import JAcc

VERIF = os.environ.get("NREL_ALTRIOS_VERIF_DIR", "/verif")
NAN = float("nan")


def L(prev=0, prev_alt=0, next=0, next_alt=0, length=4000, speed=20):
    return dict(prev=prev, prev_alt=prev_alt, next=next, next_alt=next_alt, length=length, speed=speed, flip=0)


SCENARIOS = {
    # one origin, one destination, three links in a row
    "chain3": dict(links=[L(next=2), L(prev=1, next=3), L(prev=2)], origs=[1], dests=[3]),
    # passing siding whose alternate is slower: two branches that stay apart to the end (two end nodes, joined by the final fake nodes)
    "siding_slow": dict(links=[L(next=2, next_alt=3), L(prev=1, next=4), L(prev=1, next=4, speed=10), L(prev=2, prev_alt=3)], origs=[1], dests=[4]),
    # passing siding with equal running: the alternate branch is joined back onto the main branch (speed join, fake join node)
    "siding_join": dict(links=[L(next=2, next_alt=3), L(prev=1, next=4), L(prev=1, next=4), L(prev=2, prev_alt=3)], origs=[1], dests=[4]),
    # two origin links feeding one line: alternate start nodes, the second origin's branch joins the first
    "two_origins": dict(links=[L(next=3), L(next=3), L(prev=1, prev_alt=2, next=4), L(prev=3, next=5), L(prev=4)], origs=[1, 2], dests=[5]),
    # two sidings in a row: nested alternates
    "two_sidings": dict(links=[L(next=2, next_alt=3), L(prev=1, next=4), L(prev=1, next=4, speed=12), L(prev=2, prev_alt=3, next=5, next_alt=6),
                               L(prev=4, next=7), L(prev=4, next=7, speed=15), L(prev=5, prev_alt=6)], origs=[1], dests=[7]),
}

_SC_CACHE = {}


def runner_path():
    sys.path.insert(0, os.path.join(VERIF, "bin"))
    import buildlib
    info = buildlib.prepare(need_mir=True, need_runner=True)
    return info["runner"]


def scenario_graph(name):
    """the graph the real make_est_times hands to the relinking passes for this scenario (native run on the current tree)"""
    if name in _SC_CACHE:
        return _SC_CACHE[name]
    d = dict(SCENARIOS[name])
    d["t0"] = 7.5
    req = {"recv_ty": "W_EstScenario", "recv": d, "calls": [{"fn": "scenario", "args": []}]}
    p = subprocess.run([runner_path()], input=json.dumps(req) + "\n", capture_output=True, text=True, timeout=300)
    r = json.loads(p.stdout.splitlines()[0])
    _SC_CACHE[name] = r
    return r


def node_tmpl(e, i):
    num = lambda x: NAN if x == "__NaN__" else x
    return {"time_sched": num(e["time_sched"]), "time_to_next": (Sym(f"d{i}") if e["time_to_next"] != 0 else 0), "dist_to_next": num(e["dist_to_next"]), "speed": num(e["speed"]),
            "idx_next": e["idx_next"], "idx_next_alt": e["idx_next_alt"], "idx_prev": e["idx_prev"], "idx_prev_alt": e["idx_prev_alt"],
            "link_event": {"link_idx": e["link_event"]["link_idx"], "est_type": e["link_event"]["est_type"]}}


def walks(pre):
    """all start-to-end walks of the pre-update graph along primary / alternate next links: list of node lists"""
    n = len(pre)
    out = []

    def go(i, acc):
        if len(acc) > 4 * n:
            raise RuntimeError("cycle in the estimated-time graph")
        acc = acc + [i]
        if i == n - 1:
            out.append(acc)
            return
        e = pre[i]
        if e["idx_next"] != 0:
            go(e["idx_next"], acc)
        if e["idx_next_alt"] != 0:
            # an alternate node stands for the same instant as its owner: the owner's own duration is not spent on this branch
            go(e["idx_next_alt"], acc[:-1] + [("alt", i)])
    go(0, [])
    return out


def ival(v):
    """concrete int of an index field on this path (index fields are never symbolic: the structure is concrete)"""
    if isinstance(v, int):
        return v
    if is_z3(v):
        s = z3.simplify(v)
        if z3.is_int_value(s):
            return s.as_long()
    raise ValueError(f"symbolic index field {v!r}")


def update_case(name, backward=True):
    r = scenario_graph(name)
    if r.get("kind") != "ok" or not r.get("pre") or r.get("network_valid") is not None:
        c = Case(f"update_times_{name}", "C15", None, None, [], lambda S: [], [], bounds={"scenario": name})
        c.broken = f"scenario {name}: the real make_est_times did not produce a graph on a valid network: kind={r.get('kind')} msg={r.get('msg', '')[:300]} network_valid={r.get('network_valid')}"
        return c
    pre = r["pre"]
    n = len(pre)
    # the stated domain assumption (alternate's first step not shorter than the primary's at a split node) has to cover the graph the real
    # construction produced; if it does not, the claims below say nothing about the real graph: inconclusive, not a verdict either way
    off = [i for i, e in enumerate(pre) if e["idx_next_alt"] != 0 and isinstance(e["time_to_next"], (int, float)) and isinstance(pre[e["idx_next_alt"]]["time_to_next"], (int, float))
           and pre[e["idx_next_alt"]]["time_to_next"] < e["time_to_next"] - 1e-9]
    if off:
        c = Case(f"update_times_{name}", "C15", None, None, [], lambda S: [], [], bounds={"scenario": name})
        c.broken = f"scenario {name}: the constructed graph lies outside the stated domain (alternate's first step shorter than the primary's at split node(s) {off})"
        return c
    recv = [node_tmpl(e, i) for i, e in enumerate(pre)]
    ws = walks(pre)

    def assume(S):
        d = [("departure time >= 0", S["t0"] >= 0)]
        for i in range(n):
            if f"d{i}" in S:
                d.append((f"duration d{i} > 0 (the steps construction gives a non-zero duration are positive)", S[f"d{i}"] > 0))
        # a split node's two branches leave from the same point of the same link: the alternate's first step (which, unlike the primary's,
        # is only queued when its owner is popped) is assumed not to be shorter than the primary's -- true of every graph the scenarios
        # produce (checked below); without it the forward pass is not a shortest-path computation (DESIGN.md, C15 observation)
        for i in range(n):
            a = pre[i]["idx_next_alt"]
            if a != 0:
                da = S[f"d{a}"] if f"d{a}" in S else 0
                di = S[f"d{i}"] if f"d{i}" in S else 0
                d.append((f"alternate's first step not shorter than the primary's at split node {i}: d{a} >= d{i}", da >= di))
        return d

    def g(c, i, f):
        return c.post[f"{i}.{f}"]

    def idx(c, i, f):
        return ival(g(c, i, f))

    def links_consistent(c):
        conds = []
        for i in range(n):
            p, q = idx(c, i, "idx_prev"), idx(c, i, "idx_next")
            conds.append((p != 0) != (i <= 1))
            conds.append((q != 0) != (i == n - 1))
            if i >= 1:
                conds.append(idx(c, p, "idx_next") == i or idx(c, p, "idx_next_alt") == i)
            if i != n - 1:
                conds.append(idx(c, q, "idx_prev") == i or idx(c, q, "idx_prev_alt") == i)
            for f in ("idx_next", "idx_next_alt", "idx_prev", "idx_prev_alt"):
                conds.append(0 <= idx(c, i, f) < n)
        return all(conds)

    def scheduled(c):
        vals = [g(c, i, "time_sched") for i in range(n)]
        return all(not isinstance(v, Opaque) and not (isinstance(v, float) and v != v) for v in vals)

    start_split = pre[1]["idx_next_alt"] != 0

    def primary_equation_on(edges):
        def fn(c):
            conds = []
            for i in range(2, n):
                p = idx(c, i, "idx_prev")
                if idx(c, p, "idx_next") == i and edges(p):
                    conds.append(EQ(g(c, i, "time_sched"), g(c, p, "time_sched") + g(c, p, "time_to_next")))
            return AND(*conds) if conds else True
        return fn

    # several origins: the edge out of the start node is judged on its own (after the backward pass a slower primary origin branch
    # carries its latest start time there, known finding; every other edge is not affected by it)
    nested = sum(1 for e in pre if e["idx_next_alt"] != 0) > 1
    # nested alternates: with independent durations the backward pass can reach the start through a branch that is not the shortest
    # one (see the trip-time note below), which shows on the edge out of the start node only; not established as reachable, not claimed
    primary_equation = primary_equation_on(lambda p: not ((start_split or nested) and backward and p == 1))

    def not_later(kind):
        def fn(c):
            conds = []
            for i in range(1, n):
                for f in ("idx_prev", "idx_prev_alt"):
                    p = idx(c, i, f)
                    if p == 0:
                        continue
                    if idx(c, p, "idx_next") == i:
                        if kind == ("primary" if f == "idx_prev" else "join_alt"):
                            conds.append(LE(g(c, i, "time_sched"), g(c, p, "time_sched") + g(c, p, "time_to_next")))
                    elif idx(c, p, "idx_next_alt") == i and kind == "split_alt":
                        conds.append(LE(g(c, i, "time_sched"), g(c, p, "time_sched")))
            return AND(*conds) if conds else True
        return fn

    def walk_len(c, w):
        tot = 0
        for x in w[:-1]:
            if isinstance(x, tuple):
                continue
            tot = tot + (c.S[f"d{x}"] if f"d{x}" in c.S else 0)
        return tot

    def trip_time_is_shortest(c):
        trip = g(c, n - 1, "time_sched") - g(c, 0, "time_sched")
        lens = [walk_len(c, w) for w in ws]
        return AND(*[LE(trip, l) for l in lens], OR(*[EQ(trip, l) for l in lens]))

    def first_is_departure(c):
        return AND(EQ(g(c, 0, "time_sched"), c.S["t0"]) if not backward else True, EQ(g(c, 1, "time_sched"), g(c, 0, "time_sched")))

    def durations_kept(c):
        # the passes only permute durations between a fan's nodes: the multiset of step durations is unchanged and none turns negative
        return AND(*[GE(g(c, i, "time_to_next"), 0) for i in range(n)])

    claims = [
        Claim("forward and backward links mutually consistent after the passes", links_consistent, role="links_consistent"),
        Claim("every node is scheduled (no NaN left)", scheduled, role="all_scheduled"),
        Claim("scheduled time = primary predecessor's time + that predecessor's duration", primary_equation, role="primary_equation"),
        Claim("no node is scheduled later than its primary predecessor allows", not_later("primary"), role="not_later_than_primary_pred"),
        Claim("no join node is scheduled later than its alternate predecessor allows", not_later("join_alt"), role="not_later_than_join_alt_pred"),
        Claim("no node is scheduled before the departure time", lambda c: AND(*[GE(g(c, i, "time_sched"), c.S["t0"]) for i in range(n)]), role="sched_not_before_departure"),
        Claim("trip time (last - first scheduled time) is the shortest start-to-end walk", trip_time_is_shortest, role="trip_time_shortest"),
        Claim("the two start nodes carry the same time", first_is_departure, role="start_nodes"),
        Claim("step durations stay non-negative", durations_kept, role="durations_nonneg"),
        Claim("the passes' own asserts never fire", None, when="nopanic", role="no_panic"),
        # the real graph has to lie inside the domain the durations above are quantified over (and the property asks for it directly)
        Claim("the step durations construction produced for this scenario are finite and non-negative",
              lambda c: all(isinstance(e["time_to_next"], (int, float)) and e["time_to_next"] >= 0 for e in pre), when="any", role="constructed_durations_nonneg"),
    ]
    if start_split and backward:
        claims.insert(3, Claim("scheduled time = primary predecessor's time + duration on the edge out of the start node", primary_equation_on(lambda p: p == 1), role="start_split_primary_equation"))
    calls = [Call("update_times::update_times_forward", [("Quantity", Sym("t0"))])]
    if backward:
        calls.append(Call("update_times::update_times_backward", []))
        if sum(1 for e in pre if e["idx_next_alt"] != 0) > 1:
            # nested alternates: with independent durations the backward pass can reach the start node through a branch that is not the
            # shortest one (mirror image of the forward-pass observation, DESIGN.md 10.6); whether a real construction can produce such
            # durations is not established, so the trip-time claim after the backward pass is made for single-alternate graphs only
            claims[:] = [cl for cl in claims if cl.role != "trip_time_shortest"]
    else:
        # earliest-time reading of an alternate: right after the forward pass it stands for the same instant as the split node it leaves from
        # (the backward pass then moves off-shortest-path nodes to latest times, for which no order between the two is implied)
        claims.insert(5, Claim("no alternate node is scheduled later than the split node it leaves from", not_later("split_alt"), role="not_later_than_split_owner"))
    c = Case(f"update_times_{'fwd_bwd' if backward else 'fwd'}_{name}", "C15", "Vec<EstTime>", recv, calls, assume, claims,
             bounds={"scenario": name, "network links": len(SCENARIOS[name]["links"]), "graph nodes": n, "start-to-end walks": len(ws),
                     "structure": "concrete, produced by the real make_est_times on this tree", "durations, departure time": "symbolic, >= 0"},
             max_paths=(20000 if n <= 20 else 600000), loop_bound=400, timeout_ms=60000, check_side=False)
    return c


def m_cases(tier):
    names = ["chain3", "siding_slow", "siding_join", "two_origins"] + (["two_sidings"] if tier == "thorough" else [])
    cs = []
    for nme in names:
        cs.append(update_case(nme, backward=False))
        cs.append(update_case(nme, backward=True))
    return cs


# ---------------------------------------------------------------- movement -> events (update_est_times_add), fully symbolic
def est_add_case(nmov, nlp, kin=True):
    """update_est_times_add on a symbolic movement of nmov states over a path of nlp link points (link k+1 starts at link point k)"""
    from traincommon import link_points_tmpl
    lps = link_points_tmpl(nlp)
    for k in range(nlp):
        lps[k]["link_idx"] = k + 1
    mov = [{"time": Sym(f"t{i}"), "offset": Sym(f"x{i}"), "speed": Sym(f"v{i}")} for i in range(nmov)]
    DT = 1  # concrete step size (the train simulations' default): keeps acceleration and the trapezoid rule linear for the solver
    lp = lambda S, k: (0 if k == 0 else S[f"lp{k}"])

    def assume(S):
        d = [("train length > 0", S["len"] > 0), ("x0 >= 0", S["x0"] >= 0), ("v0 >= 0", S["v0"] >= 0)]
        for i in range(1, nmov):
            d += [(f"t{i} = t{i-1} + {DT} s", S[f"t{i}"] == S[f"t{i-1}"] + DT), (f"v{i} >= 0", S[f"v{i}"] >= 0), (f"the train moves in step {i}", S[f"v{i}"] + S[f"v{i-1}"] > 0),
                  (f"x{i} = x{i-1} + dt*(v{i}+v{i-1})/2 (constant acceleration within a step)", S[f"x{i}"] == S[f"x{i-1}"] + (S[f"t{i}"] - S[f"t{i-1}"]) * (S[f"v{i}"] + S[f"v{i-1}"]) / 2)]
        for k in range(1, nlp):
            d.append((f"link points strictly increasing: lp{k}", S[f"lp{k}"] > lp(S, k - 1)))
        d.append(("the front stays before the last link point (the path always extends beyond the movement)", S[f"x{nmov-1}"] < S[f"lp{nlp-1}"]))
        # a train that comes to rest exactly on an event position makes the code evaluate 0 / (0 + 0) (NaN time): measure-zero coincidence,
        # excluded here and recorded as an observation in DESIGN.md 10.6
        for i in range(1, nmov):
            for k in range(1, nlp):
                d.append((f"not at rest exactly on a boundary: state {i}, link point {k}", z3.Not(z3.And(S[f"v{i}"] == 0, z3.Or(S[f"x{i}"] == lp(S, k), S[f"x{i}"] == lp(S, k) + S["len"])))))
        return d

    def events(c):
        r = c.post
        n_ = len(r.j) if isinstance(r, JAcc) else r.len()
        return [r[str(k)] for k in range(n_)]

    def etype(e):
        le = e["link_event"]
        return le.j["est_type"] if isinstance(le, JAcc) else le["est_type"].variant()

    def lidx(e):
        le = e["link_event"]
        if isinstance(le, JAcc):
            v = le.j["link_idx"]
            return v["idx"] if isinstance(v, dict) else int(v)
        v = le["link_idx"]
        return ival(v["idx"] if hasattr(v, "v") else v)

    def ordered(c):
        ev = events(c)
        conds = []
        for a, b in zip(ev, ev[1:]):
            conds += [LE(a["dist_to_next"], b["dist_to_next"])]
        for e in ev:
            conds += [GT(e["dist_to_next"], c.S["x0"]), LE(e["dist_to_next"], c.S[f"x{nmov-1}"]), GE(e["speed"], 0)]
        return AND(*conds) if conds else True

    def times_inside(c):
        conds = []
        for e in events(c):
            conds += [GE(e["time_to_next"], c.S["t0"]), LE(e["time_to_next"], c.S[f"t{nmov-1}"])]
        return AND(*conds) if conds else True

    def times_ordered(c):
        ev = events(c)
        conds = [LE(a["time_to_next"], b["time_to_next"]) for a, b in zip(ev, ev[1:])]
        return AND(*conds) if conds else True

    def identity(c):
        """an Arrive of link L sits at L's entry point; a Clear of link L ("train clears entry point to link") one train length after it"""
        conds = []
        for e in events(c):
            L_ = lidx(e)
            if etype(e) == "Arrive":
                conds.append(EQ(e["dist_to_next"], lp(c.S, L_ - 1)))
            elif etype(e) == "Clear":
                conds.append(EQ(e["dist_to_next"], lp(c.S, L_ - 1) + c.S["len"]))
            else:
                conds.append(False)
        return AND(*conds) if conds else True

    def complete(c):
        """every boundary the front / the tail crosses during the movement produces its event, and nothing else does"""
        ev = events(c)
        S = c.S
        x0, xl = S["x0"], S[f"x{nmov-1}"]
        conds = []
        for k in range(1, nlp):
            crossed_front = AND(XLT(x0, lp(S, k)), XLE(lp(S, k), xl))
            has = any(etype(e) == "Arrive" and lidx(e) == k + 1 for e in ev)
            conds.append(IMP(crossed_front, has))
            conds.append(IMP(NOT(crossed_front), not has))
            # the tail passes link point k (clearing the entry point of link k+1) when the front is at lp_k + len
            crossed_back = AND(XLT(x0, lp(S, k) + S["len"]), XLE(lp(S, k) + S["len"], xl))
            hasc = any(etype(e) == "Clear" and lidx(e) == k + 1 for e in ev)
            conds.append(IMP(crossed_back, hasc))
            conds.append(IMP(NOT(crossed_back), not hasc))
        return AND(*conds)

    def entered_before_cleared(c):
        ev = events(c)
        conds = []
        for i, e in enumerate(ev):
            if etype(e) == "Clear":
                for j, a in enumerate(ev):
                    if etype(a) == "Arrive" and lidx(a) == lidx(e):
                        conds.append(j < i)
        return all(conds)

    def kinematics(c):
        """the event lies on the constant-acceleration trajectory of its step: position and speed agree with the trapezoid rule from the step's start"""
        S = c.S
        conds = []
        for e in events(c):
            d_, t_, v_ = e["dist_to_next"], e["time_to_next"], e["speed"]
            alts = []
            for i in range(1, nmov):
                inside = AND(XLT(S[f"x{i-1}"], d_), XLE(d_, S[f"x{i}"]))
                conds.append(IMP(inside, AND(EQ(d_ - S[f"x{i-1}"], (t_ - S[f"t{i-1}"]) * (v_ + S[f"v{i-1}"]) / 2), GE(t_, S[f"t{i-1}"]), LE(t_, S[f"t{i}"]))))
        return AND(*conds) if conds else True

    claims = [
        Claim("events ordered in distance, inside the movement, speeds non-negative", ordered, role="events_ordered"),
        Claim("event times inside the movement's time span", times_inside, role="event_times_inside"),
        Claim("event times non-decreasing along the list", times_ordered, role="event_times_ordered"),
        Claim("an Arrive sits at its link's entry point, a Clear one train length after it", identity, role="event_identity"),
        Claim("every boundary crossed by the front / the tail yields exactly its event", complete, role="events_complete"),
        Claim("a link is cleared only after it was entered (when both fall into the movement)", entered_before_cleared, role="entered_before_cleared"),
        Claim("never panics (indices stay inside the path)", None, when="nopanic", role="no_panic"),
    ]
    if kin:
        claims.insert(5, Claim("event time and speed lie on the step's constant-acceleration trajectory", kinematics, role="event_kinematics"))
    c = Case(f"est_times_add_m{nmov}_lp{nlp}", "C15", "Vec<EstTime>", [], [Call("update_est_times_add", [("&Vec<SimpleState>", mov), ("&Vec<LinkPoint>", lps), ("Quantity", Sym("len"))])],
             assume, claims, bounds={"movement states": nmov, "link points": nlp, "train length": "symbolic > 0", "movement": "symbolic, constant acceleration within a step", "step size": "1 s (concrete)"},
             max_paths=20000, loop_bound=60, timeout_ms=300000, check_side=False)  # usually 4 s in total; one run in twenty spent 90 s (z3 variance on the sqrt terms)
    return c


_upd_cases = m_cases


def m_cases(tier):
    cs = _upd_cases(tier)
    # one step of movement (two states): the per-step loop body is what the function consists of; three states (two steps) and a
    # fourth link point were tried and are out of reach (10-25 minutes of path exploration, z3 timeouts on the event-time claims)
    cs += [est_add_case(2, 3)]
    return cs
