"""SpeedLimitTrainSim::solve_required_pwr — one control step of the speed-limited train from an arbitrary state (shared by C03, C11, C12)."""
from traincommon import *  # noqa


def sl_step_recv(ramp0=True, dt=None, mass=None):
    """a speed-limited train on a one-DummyLoco consist, two braking points, symbolic kinematic state, resistances and limits"""
    con = dummy_consist_tmpl()
    pts = [{"offset": Sym("bo0"), "speed_limit": Sym("bl0"), "speed_target": Sym("bt0")}, {"offset": 0, "speed_limit": Sym("bl1"), "speed_target": Sym("bt1")}]
    recv = slts_tmpl(con, i=1, nlp=3, points=pts)
    recv["braking_points"]["idx_curr"] = 1
    if dt is not None:
        recv["state"]["dt"] = dt  # concrete step size / mass: keeps force -> speed change linear for the solver
    if mass is not None:
        recv["state"]["mass_static"] = mass
        recv["state"]["mass_rot"] = 0
    if not ramp0:
        recv["fric_brake"]["ramp_up_time"] = Sym("fb_ramp_up_time")
    return recv


def sl_step_domain(S, ramp0=True):
    d = [("train length > 0", S["ts_length"] > 0),
         ("speed >= 0", S["ts_speed"] >= 0), ("front position on the path, behind the first braking point's offset or beyond", S["ts_offset"] >= 0),
         ("braking points: offsets decrease with the index, 0 <= target <= limit", z3.And(S["bo0"] > 0, S["bt0"] >= 0, S["bt0"] <= S["bl0"], S["bt1"] >= 0, S["bt1"] <= S["bl1"])),
         ("the train respects the limit in force (otherwise the documented assert fires)", S["ts_speed"] <= z3.If(S["bo0"] <= S["ts_offset"], S["bl0"], S["bl1"])),
         ("friction brake: force_max > 0, 0 <= current force <= force_max", z3.And(S["fb_force_max"] > 0, S["fb_s_force"] >= 0, S["fb_s_force"] <= S["fb_force_max"], S["fb_ramp_up_coeff"] >= 0)),
         ("consist: published limits non-negative", z3.And(S["cs_pwr_out_max"] >= 0, S["cs_pwr_rate_out_max"] >= 0, S["cs_pwr_dyn_brake_max"] >= 0, S["dl_force_max"] > 0))]
    if not ramp0:
        d.append(("brake ramp-up time > 0", S["fb_ramp_up_time"] > 0))
    if "ts_dt" in S:
        d.append(("step size > 0", S["ts_dt"] > 0))
    if "ts_mass_static" in S:
        d.append(("masses: static > 0, rotational >= 0", z3.And(S["ts_mass_static"] > 0, S["ts_mass_rot"] >= 0)))
    return d


def res_net(c):
    return sum(c.pre["state." + f] for f in ("res_rolling", "res_bearing", "res_davis_b", "res_aero", "res_grade", "res_curve"))
