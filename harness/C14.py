"""C14 — a set-speed run follows its trace; wheel power is inertia plus resistance, clipped only to the consist limits."""
from traincommon import *  # noqa


def ssts_tmpl(i, npts, nlp=3):
    return {"loco_con": dummy_consist_tmpl(), "state": train_state_tmpl(i),
            "speed_trace": {"time": [Sym(f"t{j}") for j in range(npts)], "speed": [Sym(f"v{j}") for j in range(npts)], "engine_on": None},
            "train_res": strap_res_tmpl(), "path_tpc": path_tpc_tmpl(nlp), "save_interval": None}


def trace_domain(S, npts, strict=True):
    d = []
    for j in range(npts - 1):
        if strict:
            d.append((f"t{j} < t{j+1} (irregular but increasing time stamps)", S[f"t{j}"] < S[f"t{j+1}"]))
        else:
            d.append((f"t{j} <= t{j+1} (time stamps may repeat)", S[f"t{j}"] <= S[f"t{j+1}"]))
    return d


def required_pwr_case(i, npts):
    """SetSpeedTrainSim::solve_required_pwr with symbolic consist limits, resistances and trace"""
    def assume(S):
        return trace_domain(S, npts) + [("masses > 0", z3.And(S["ts_mass_static"] > 0, S["ts_mass_rot"] >= 0)), ("dt argument > 0", S["dt"] > 0),
                                        ("published consist traction limit >= 0", S["cs_pwr_out_max"] >= 0)]

    dtr = lambda c: c.S[f"t{i}"] - c.S[f"t{i-1}"]
    mean = lambda c: (c.S[f"v{i}"] + c.S[f"v{i-1}"]) / 2
    res_net = lambda c: c.pre["state.res_rolling"] + c.pre["state.res_bearing"] + c.pre["state.res_davis_b"] + c.pre["state.res_aero"] + c.pre["state.res_grade"] + c.pre["state.res_curve"]

    def unclipped(c):
        return c.post["state.pwr_accel"] + c.post["state.pwr_res"]

    def clipped(c):
        pos = MIN(c.pre["loco_con.state.pwr_out_max"], MAX(0, c.pre["state.pwr_whl_out"] + c.pre["loco_con.state.pwr_rate_out_max"] * c.pre["state.dt"]))
        neg = MAX(c.pre["loco_con.state.pwr_dyn_brake_max"], 0)
        return MIN(MAX(unclipped(c), -neg), pos)

    claims = [
        Claim("pwr_res = total resistance * mean speed", lambda c: EQ(c.post["state.pwr_res"], res_net(c) * mean(c))),
        Claim("pwr_accel = d/dt kinetic energy of compound mass over the trace's own dt", lambda c: EQ(c.post["state.pwr_accel"] * 2 * dtr(c), (c.pre["state.mass_static"] + c.pre["state.mass_rot"]) * (c.S[f"v{i}"] * c.S[f"v{i}"] - c.S[f"v{i-1}"] * c.S[f"v{i-1}"])), role="pwr_accel"),
        Claim("state.dt = trace dt", lambda c: EQ(c.post["state.dt"], dtr(c))),
        Claim("pwr_whl_out = inertia + resistance clipped to [-dyn_brake_max, published traction limit]", lambda c: EQ(c.post["state.pwr_whl_out"], clipped(c)), role="clip"),
        Claim("energy_whl_out accumulates pwr_whl_out * dt", lambda c: EQ(c.post["state.energy_whl_out"], c.pre["state.energy_whl_out"] + c.post["state.pwr_whl_out"] * c.S["dt"])),
        Claim("positive/negative wheel energy split on the sign of pwr_whl_out", lambda c: AND(
            EQ(c.post["state.energy_whl_out_pos"], c.pre["state.energy_whl_out_pos"] + IF(XLE(0, c.post["state.pwr_whl_out"]), c.post["state.pwr_whl_out"] * c.S["dt"], 0)),
            EQ(c.post["state.energy_whl_out_neg"], c.pre["state.energy_whl_out_neg"] - IF(XLE(0, c.post["state.pwr_whl_out"]), 0, c.post["state.pwr_whl_out"] * c.S["dt"])))),
        Claim("no_panic", None, when="nopanic"),
    ]
    return Case(f"set_speed_required_pwr_i{i}_of{npts}", "C14", "SetSpeedTrainSim", ssts_tmpl(i, npts),
                [Call("SetSpeedTrainSim::solve_required_pwr", [("si::Time", Sym("dt"))])], assume, claims,
                bounds={"trace points": npts, "step index": i}, notes=["consist state (published limits), train state and trace symbolic"], timeout_ms=60000)


def step_case(i, npts, nlp=3, strict_time=True):
    """whole SetSpeedTrainSim::solve_step on a one-DummyLoco consist (accepts every demand)"""
    def assume(S):
        d = trace_domain(S, npts, strict_time) + path_domain(S, nlp)
        d += [("masses > 0", z3.And(S["ts_mass_static"] > 0, S["ts_mass_rot"] >= 0)), ("train length > 0", S["ts_length"] > 0),
              ("rear of the train on the path", S["ts_offset"] - S["ts_length"] >= 0),
              ("front stays within the path profile", z3.And(S["ts_offset"] <= S["go1"], S["ts_offset"] <= S["ko1"])),
              ("front stays before the last link point after the step", S["ts_offset"] + (S[f"v{i}"] + S[f"v{i-1}"]) / 2 * (S[f"t{i}"] - S[f"t{i-1}"]) <= S[f"lp{nlp-1}"]),
              ("previous dynamic-brake capability of the consist below the DummyLoco's 1e15 W regeneration limit (harness artefact: keeps the demand inside what a DummyLoco absorbs)", S["cs_pwr_dyn_brake_max"] <= 1e14),
              ("front position > 0 after the step", S["ts_offset"] + (S[f"v{i}"] + S[f"v{i-1}"]) / 2 * (S[f"t{i}"] - S[f"t{i-1}"]) > 0)]
        return d

    claims = [
        Claim("time follows the trace", lambda c: EQ(c.post["state.time"], c.S[f"t{i}"])),
        Claim("speed follows the trace", lambda c: EQ(c.post["state.speed"], c.S[f"v{i}"])),
        Claim("accepted step implies non-negative speed at this sample", lambda c: GE(c.S[f"v{i}"], 0)),
        Claim("accepted step implies non-negative speed at the previous sample", lambda c: GE(c.S[f"v{i-1}"], 0), role="negative_previous_sample"),
        Claim("no_panic", None, when="nopanic"),
    ]
    return Case(f"set_speed_step_i{i}_of{npts}", "C14", "SetSpeedTrainSim", ssts_tmpl(i, npts, nlp),
                [Call("SetSpeedTrainSim::solve_step", [])], assume, claims,
                bounds={"trace points": npts, "step index": i, "link points": nlp, "consist": "one DummyLoco (unlimited power)"},
                notes=["real code for the consist calls; utils::almost_eq modelled with its IEEE semantics for 0/0"], max_paths=20000, timeout_ms=60000)


def m_cases(tier):
    tier = "thorough"  # the full case list is cheap enough to run on every change (the tiers differ only in validation vectors)
    cs = [required_pwr_case(1, 2), required_pwr_case(2, 3), step_case(1, 2), step_case(2, 3)]
    if tier == "thorough":
        cs += [required_pwr_case(1, 3), required_pwr_case(3, 4), step_case(1, 3), step_case(3, 4, 4)]
    return cs
