"""C16 — network validation accepts exactly the consistent networks and never aborts."""
from common import *  # noqa
from values import Opaque, is_z3, Struct, Seq
from fractions import Fraction as _Fr

LINK = "link_impl::Link"
FIELDS = ("idx_flip", "idx_next", "idx_next_alt", "idx_prev", "idx_prev_alt", "idx_curr")


def link(curr, flip=0, nxt=0, nxt_alt=0, prv=0, prv_alt=0, fake=False):
    if fake:
        return {"idx_curr": 0, "idx_flip": 0, "idx_next": 0, "idx_next_alt": 0, "idx_prev": 0, "idx_prev_alt": 0, "osm_id": None, "length": 0, "elevs": [], "headings": [],
                "speed_sets": Raw(Struct("HashMap", [Seq(())]), json={}, has_json=True), "speed_set": None, "cat_power_limits": [], "link_idxs_lockout": []}
    return {"idx_curr": curr, "idx_flip": flip, "idx_next": nxt, "idx_next_alt": nxt_alt, "idx_prev": prv, "idx_prev_alt": prv_alt, "osm_id": None, "length": 100,
            "elevs": [{"offset": 0, "elev": 0}, {"offset": 100, "elev": 1}], "headings": [],
            "speed_sets": Raw(Struct("HashMap", [Seq(())]), json={}, has_json=True),
            "speed_set": {"speed_limits": [{"offset_start": 0, "offset_end": 100, "speed": 20}], "speed_params": [], "is_head_end": False},
            "cat_power_limits": [], "link_idxs_lockout": []}


def base_network(kind):
    if kind == "bidir2":  # two segments of bidirectional track: 1 -> 2 forward, 3 -> 4 their flips in reverse order
        return [link(0, fake=True), link(1, flip=4, nxt=2), link(2, flip=3, prv=1), link(3, flip=2, nxt=4), link(4, flip=1, prv=3)]
    if kind == "switch":  # 1 diverges into 2 (primary) and 3 (alternate)
        return [link(0, fake=True), link(1, nxt=2, nxt_alt=3), link(2, prv=1), link(3, prv=1)]
    if kind == "chain3":
        return [link(0, fake=True), link(1, nxt=2), link(2, prv=1, nxt=3), link(3, prv=2)]
    raise KeyError(kind)


def ref_valid(net, N):
    """the documented cross-reference rules as a predicate over the index fields (ints or z3 terms)"""
    def sel(field, t):
        """links[t].field, with an out-of-range marker"""
        val = -1
        for k in range(N):
            val = IF(XEQ(t, k), net[k][field], val)
        return val

    conds = []
    for i in range(1, N):
        L = net[i]
        curr, flip, nxt, nalt, prv, palt = (L[f] for f in ("idx_curr", "idx_flip", "idx_next", "idx_next_alt", "idx_prev", "idx_prev_alt"))
        real = lambda v: NOT(XEQ(v, 0))
        inr = lambda v: AND(XLE(0, v), XLT(v, N))
        conds.append(XEQ(curr, i))
        conds += [inr(flip), inr(nxt), inr(nalt), inr(prv), inr(palt)]  # references outside the network are errors
        conds.append(IMP(real(flip), AND(*[NOT(XEQ(flip, v)) for v in (curr, nxt, nalt, prv, palt)])))
        conds.append(IMP(real(nalt), real(nxt)))
        conds.append(IMP(real(palt), real(prv)))
        conds.append(NOT(XEQ(flip, curr)))
        conds.append(IMP(real(flip), XEQ(sel("idx_flip", flip), curr)))
        for t in (nxt, nalt):
            linked = OR(XEQ(t, 0), XEQ(sel("idx_prev", t), curr), XEQ(sel("idx_prev_alt", t), curr))
            conds.append(IMP(real(nxt), linked))
            conds.append(IMP(AND(real(nxt), real(nalt)), XEQ(sel("idx_prev_alt", t), 0)))
        for t in (prv, palt):
            linked = OR(XEQ(t, 0), XEQ(sel("idx_next", t), curr), XEQ(sel("idx_next_alt", t), curr))
            conds.append(IMP(real(prv), linked))
            conds.append(IMP(AND(real(prv), real(palt)), XEQ(sel("idx_next_alt", t), 0)))
    return AND(*conds)


def xref_case(kind, j, field):
    net = base_network(kind)
    N = len(net)
    net[j][field] = Sym("v", "int")

    def assume(S):
        return [("the mutated index is any u32", z3.And(S["v"] >= 0, S["v"] < 2**32))]

    def fields(c):
        out = []
        for k in range(N):
            d = {}
            for f in FIELDS:
                d[f] = c.S["v"] if (k == j and f == field) else net[k][f]
            out.append(d)
        return out

    claims = [
        Claim("accepted only if the documented cross-reference rules hold", lambda c: ref_valid(fields(c), N), when="ok", role="accepts_only_valid"),
        Claim("rejected only if a documented rule is broken", lambda c: NOT(ref_valid(fields(c), N)), when="err", role="rejects_only_invalid"),
        Claim("a bad reference is an error value, never a crash", None, when="nopanic", role="no_panic"),
    ]
    return Case(f"network_xref_{kind}_link{j}_{field}", "C16", f"Vec<{LINK}>", net, [Call("<[Link] as ObjState>::validate", [])], assume, claims,
                bounds={"network": kind, "links": N, "mutated field": f"links[{j}].{field}", "value": "symbolic u32 (in and out of range)"},
                expect_ok=False, max_paths=20000, loop_bound=80, check_side=False)


def elevs_case(n, ty="Elev"):
    val = "elev" if ty == "Elev" else "heading"
    items = [{"offset": Sym(f"o{i}"), val: Sym(f"e{i}")} for i in range(n)]
    if ty == "Heading":
        for it in items:
            it["lat"] = None
            it["lon"] = None

    def ref(c):
        conds = [XLE(0, c.S[f"o{i}"]) for i in range(n)] + [XLT(c.S[f"o{i}"], c.S[f"o{i+1}"]) for i in range(n - 1)]
        if ty == "Heading":
            rev = z3.RealVal(_Fr(6.283185307179586)) if any(is_z3(v) for v in c.S.values()) else 6.283185307179586
            conds += [AND(XLE(0, c.S[f"e{i}"]), XLT(c.S[f"e{i}"], rev)) for i in range(n)]
        return AND(n >= 2, *conds)

    claims = [Claim("accepted only if offsets are >= 0, strictly increasing and there are at least two points", ref, when="ok", role="accepts_only_valid"),
              Claim("rejected only if one of those rules is broken", lambda c: NOT(ref(c)), when="err", role="rejects_only_invalid"),
              Claim("no_panic", None, when="nopanic")]
    return Case(f"{ty.lower()}s_validate_n{n}", "C16", f"Vec<{ty}>", items, [Call(f"<[{ty}] as ObjState>::validate", [])], None, claims,
                bounds={"points": n, "values": "symbolic finite reals (NaN / infinite values are outside engine M's float model)"}, expect_ok=False, check_side=False)


def cat_case(n):
    items = [{"offset_start": Sym(f"s{i}"), "offset_end": Sym(f"e{i}"), "power_limit": Sym(f"p{i}"), "district_id": None} for i in range(n)]

    def ref(c):
        conds = []
        for i in range(n):
            conds += [XLE(0, c.S[f"s{i}"]), XLE(0, c.S[f"e{i}"]), XLE(c.S[f"s{i}"], c.S[f"e{i}"]), XLE(0, c.S[f"p{i}"])]
        for i in range(n - 1):
            conds.append(XLE(c.S[f"e{i}"], c.S[f"s{i+1}"]))  # non-overlapping and ordered
        return AND(*conds)

    claims = [Claim("accepted only if every section is well-formed and sections do not overlap", ref, when="ok", role="accepts_only_valid"),
              Claim("rejected only if a section is malformed or two sections overlap", lambda c: NOT(ref(c)), when="err", role="rejects_only_invalid"),
              Claim("no_panic", None, when="nopanic")]
    return Case(f"cat_power_limits_validate_n{n}", "C16", "Vec<CatPowerLimit>", items, [Call("<[CatPowerLimit] as ObjState>::validate", [])], None, claims,
                bounds={"sections": n, "values": "symbolic finite reals"}, expect_ok=False, check_side=False)


def link_geometry_case(nH, nC, special=None):
    """Link::validate on one real link: length, elevation / heading profiles spanning exactly the link, catenary sections inside it"""
    d = link(1)
    d["length"] = Sym("len") if special != "length" else SPECIALS["NaN"]
    d["elevs"] = [{"offset": Sym("eo0"), "elev": Sym("ee0")}, {"offset": Sym("eo1"), "elev": Sym("ee1")}]
    d["headings"] = [{"offset": Sym(f"ho{i}"), "heading": Sym(f"hh{i}"), "lat": None, "lon": None} for i in range(nH)]
    d["cat_power_limits"] = [{"offset_start": Sym(f"cs{i}"), "offset_end": Sym(f"ce{i}"), "power_limit": Sym(f"cp{i}"), "district_id": None} for i in range(nC)]
    d["speed_set"] = {"speed_limits": [{"offset_start": 0, "offset_end": Sym("se"), "speed": 20}], "speed_params": [], "is_head_end": False}

    def ref(c):
        S = c.S
        rev = z3.RealVal(_Fr(6.283185307179586)) if any(is_z3(v) for v in S.values()) else 6.283185307179586
        conds = [XLT(0, S["len"]), XEQ(S["eo0"], 0), XLT(S["eo0"], S["eo1"]), XEQ(S["eo1"], S["len"]), XLE(0, S["se"])]
        if nH:
            conds += [XEQ(S["ho0"], 0), XEQ(S[f"ho{nH-1}"], S["len"])] + [XLT(S[f"ho{i}"], S[f"ho{i+1}"]) for i in range(nH - 1)] + [AND(XLE(0, S[f"hh{i}"]), XLT(S[f"hh{i}"], rev)) for i in range(nH)]
            conds.append(nH >= 2)
        for i in range(nC):
            conds += [XLE(0, S[f"cs{i}"]), XLE(S[f"cs{i}"], S[f"ce{i}"]), XLE(0, S[f"cp{i}"])]
        for i in range(nC - 1):
            conds.append(XLE(S[f"ce{i}"], S[f"cs{i+1}"]))
        if nC:
            conds.append(XLE(S[f"ce{nC-1}"], S["len"]))
        return AND(*conds)

    if special:
        claims = [Claim("a link whose length is NaN is rejected", lambda c: False, when="ok", role="special_value_rejected"), Claim("no_panic", None, when="nopanic", role="special_no_panic")]
    else:
        claims = [Claim("accepted only if the length is positive, the profiles start at 0, increase and end exactly at the length, and catenary sections lie inside the link", ref, when="ok", role="link_accepts_only_valid"),
                  Claim("rejected only if one of those rules is broken", lambda c: NOT(ref(c)), when="err", role="link_rejects_only_invalid"),
                  Claim("no_panic", None, when="nopanic")]
    c = Case(f"link_geometry_h{nH}_c{nC}" + ("_length_NaN" if special else ""), "C16", LINK, d, [Call("<link_impl::Link as ObjState>::validate", [])], None, claims,
             bounds={"elevation points": 2, "heading points": nH, "catenary sections": nC, "values": "symbolic finite reals" if not special else "length = NaN"}, expect_ok=False, check_side=False, max_paths=200000)
    if special:
        c.no_tv = True
        c.expect_err = True
    return c


def speed_case(n):
    items = [{"offset_start": Sym(f"s{i}"), "offset_end": Sym(f"e{i}"), "speed": Sym(f"v{i}")} for i in range(n)]

    def ref(c):
        S = c.S
        conds = []
        for i in range(n):
            conds += [XLE(0, S[f"s{i}"]), XLE(0, S[f"e{i}"]), XLE(S[f"s{i}"], S[f"e{i}"])]
        for i in range(n - 1):
            a, b = (S[f"s{i}"], S[f"e{i}"], S[f"v{i}"]), (S[f"s{i+1}"], S[f"e{i+1}"], S[f"v{i+1}"])
            # sorted: lexicographic order on (start, end, speed); and no two neighbours with the same extent
            le = OR(XLT(a[0], b[0]), AND(XEQ(a[0], b[0]), OR(XLT(a[1], b[1]), AND(XEQ(a[1], b[1]), XLE(a[2], b[2])))))
            conds += [le, NOT(AND(XEQ(a[0], b[0]), XEQ(a[1], b[1])))]
        return AND(*conds)

    claims = [Claim("accepted only if every section is well-formed, sections are sorted and neighbouring extents differ", ref, when="ok", role="accepts_only_valid"),
              Claim("rejected only if one of those rules is broken", lambda c: NOT(ref(c)), when="err", role="rejects_only_invalid"),
              Claim("no_panic", None, when="nopanic")]
    return Case(f"speed_limits_validate_n{n}", "C16", "Vec<SpeedLimit>", items, [Call("<[SpeedLimit] as ObjState>::validate", [])], None, claims,
                bounds={"sections": n, "values": "symbolic finite reals"}, expect_ok=False, check_side=False)


def speed_special_case(field, sp, n=2, k=0):
    items = [{"offset_start": Sym(f"s{i}"), "offset_end": Sym(f"e{i}"), "speed": Sym(f"v{i}")} for i in range(n)]
    items[k][field] = SPECIALS[sp]

    def assume(S):
        d = []
        for i in range(n):
            if f"s{i}" in S: d.append((f"s{i} >= 0", S[f"s{i}"] >= 0))
            if f"s{i}" in S and f"e{i}" in S: d.append((f"s{i} <= e{i}", S[f"s{i}"] <= S[f"e{i}"]))
            if f"e{i}" in S and f"s{i}" not in S: d.append((f"e{i} >= 0", S[f"e{i}"] >= 0))
        for i in range(n - 1):
            if f"s{i}" in S and f"s{i+1}" in S: d.append((f"s{i} < s{i+1}", S[f"s{i}"] < S[f"s{i+1}"]))
        return d
    claims = [Claim(f"a speed set with {sp} in {field} is rejected", lambda c: False, when="ok", role="special_value_rejected"),
              Claim("no_panic", None, when="nopanic", role="special_no_panic")]
    c = Case(f"speedlimit_special_{field}_{sp.replace('+', 'p').replace('-', 'm')}_k{k}of{n}", "C16", "Vec<SpeedLimit>", items, [Call("<[SpeedLimit] as ObjState>::validate", [])], assume, claims,
             bounds={"elements": n, "special value": f"element {k}.{field} = {sp}", "other fields": "symbolic, satisfying the rules"}, expect_ok=False, check_side=False)
    c.no_tv = True
    c.expect_err = True
    return c


# ---------------------------------------------------------------- special values: NaN and infinite fields (one at a time, the other fields symbolic and valid)
SPECIALS = {"NaN": float("nan"), "+inf": float("inf"), "-inf": float("-inf")}


def special_case(ty, field, sp, n=2, k=0):
    """slice validator on n elements whose element k has `field` = NaN / +inf / -inf and whose other fields satisfy the rules:
    a NaN or a negative infinity anywhere, and a +inf in an offset that has to lie inside the link, is not a well-formed profile"""
    if ty == "CatPowerLimit":
        items = [{"offset_start": Sym(f"s{i}"), "offset_end": Sym(f"e{i}"), "power_limit": Sym(f"p{i}"), "district_id": None} for i in range(n)]

        def assume(S):
            d = []
            for i in range(n):
                if f"s{i}" in S: d.append((f"s{i} >= 0", S[f"s{i}"] >= 0))
                if f"s{i}" in S and f"e{i}" in S: d.append((f"s{i} <= e{i}", S[f"s{i}"] <= S[f"e{i}"]))
                if f"e{i}" in S and f"s{i}" not in S: d.append((f"e{i} >= 0", S[f"e{i}"] >= 0))
                if f"p{i}" in S: d.append((f"p{i} >= 0", S[f"p{i}"] >= 0))
            for i in range(n - 1):
                if f"e{i}" in S and f"s{i+1}" in S: d.append((f"e{i} <= s{i+1}", S[f"e{i}"] <= S[f"s{i+1}"]))
            return d
        call = "<[CatPowerLimit] as ObjState>::validate"
    else:
        val = "elev" if ty == "Elev" else "heading"
        items = [{"offset": Sym(f"o{i}"), val: Sym(f"e{i}")} for i in range(n)]
        if ty == "Heading":
            for it in items:
                it["lat"] = None
                it["lon"] = None

        def assume(S):
            d = []
            prev = None
            for i in range(n):
                if f"o{i}" in S:
                    d.append((f"o{i} >= 0", S[f"o{i}"] >= 0))
                    if prev is not None:
                        d.append((f"offsets increase up to o{i}", prev < S[f"o{i}"]))
                    prev = S[f"o{i}"]
                if ty == "Heading" and f"e{i}" in S:
                    d.append((f"0 <= e{i} < 2 pi", z3.And(S[f"e{i}"] >= 0, S[f"e{i}"] < z3.RealVal(_Fr(6.283185307179586)))))
            return d
        call = f"<[{ty}] as ObjState>::validate"
    items[k][field] = SPECIALS[sp]
    claims = [Claim(f"a profile with {sp} in {field} is rejected", lambda c: False, when="ok", role="special_value_rejected"),
              Claim("no_panic", None, when="nopanic", role="special_no_panic")]
    c = Case(f"{ty.lower()}_special_{field}_{sp.replace('+', 'p').replace('-', 'm')}_k{k}of{n}", "C16", f"Vec<{ty}>", items, [Call(call, [])], assume, claims,
             bounds={"elements": n, "special value": f"element {k}.{field} = {sp}", "other fields": "symbolic, satisfying the rules"}, expect_ok=False, check_side=False)
    c.no_tv = True
    c.expect_err = True
    return c


def special_cases(tier):
    cs = [speed_special_case("offset_start", "NaN"), speed_special_case("offset_end", "NaN", 2, 1), speed_special_case("speed", "NaN"),
          speed_special_case("offset_start", "-inf"), speed_special_case("offset_end", "-inf"), speed_special_case("offset_start", "+inf")]
    for sp in SPECIALS:
        for f in ("offset_start", "offset_end", "power_limit"):
            if sp == "+inf" and f in ("offset_end", "power_limit"):
                continue  # an unbounded section end / power limit is not excluded by the element rules (the link-level rule bounds the end by the link length)
            cs.append(special_case("CatPowerLimit", f, sp, 2, 0))
            if tier == "thorough":
                cs.append(special_case("CatPowerLimit", f, sp, 2, 1))
        for ty, val in (("Elev", "elev"), ("Heading", "heading")):
            for f in ("offset", val):
                if sp == "+inf" and f == "offset":
                    continue  # the last offset is bounded by the link-level rule (profile spans exactly the link)
                cs.append(special_case(ty, f, sp, 2, 0 if f != "offset" else 1))
    return cs


# ---------------------------------------------------------------- loading: Network::from_file with the file system as a nondeterministic environment
OLD_LINK = "link_old::Link"


def old_link(d):
    """the same link in the legacy file layout (speed sets as a list keyed by train type)"""
    o = {k: v for k, v in d.items() if k not in ("speed_sets", "speed_set")}
    ss = d.get("speed_set")
    o["speed_sets"] = [dict(ss, train_type="Freight")] if ss else []
    return o


def from_file_case(kind, j, field):
    """<Network as SerdeAPI>::from_file on a path whose file holds a legacy-layout network with one symbolic index field.
    Environment stubs: Path::extension / OsStr::to_str / File::open succeed; from_reader (current layout) fails on the legacy file;
    NetworkOld::from_file returns the legacy network the file holds. Everything after that is the real code: From<NetworkOld>,
    From<LinkOld>, Network::init -> validate."""
    from values import Enum, Ptr
    net = base_network(kind)
    N = len(net)
    net[j][field] = Sym("v", "int")
    # lockouts are not validated, only carried: they must survive the conversion from the legacy layout
    net[1]["link_idxs_lockout"] = [2]
    net[2]["link_idxs_lockout"] = [1, 3] if N > 3 else [1]
    old = [old_link(l) for l in net]

    def assume(S):
        return [("the mutated index is any u32", z3.And(S["v"] >= 0, S["v"] < 2**32))]

    def fields(c):
        out = []
        for k in range(N):
            out.append({f: (c.S["v"] if (k == j and f == field) else net[k][f]) for f in FIELDS})
        return out

    some = lambda v: Enum("Option", 1, [v])
    ok = lambda v: Enum("Result", 0, [v])
    err = lambda: Enum("Result", 1, [Opaque("anyhow::Error")])

    def stub_from_reader(eng, st, args):
        return [(st, err())]  # a legacy-layout file does not parse as the current layout

    def stub_old_from_file(eng, st, args):
        links = eng.deref_all(st, args[0])  # the path stands for the file: it carries the legacy links the file holds
        return [(st, ok(Struct("NetworkOld", [links])))]

    stubs = {
        "re:Path::extension": lambda eng, st, args: [(st, some(Opaque("osstr")))],
        "re:OsStr::to_str": lambda eng, st, args: [(st, some(Opaque("str:yaml")))],
        "re:File::open": lambda eng, st, args: [(st, ok(Opaque("File")))],
        "re:<link_impl::Network as traits::SerdeAPI>::from_reader|<Network as SerdeAPI>::from_reader|Network as .*SerdeAPI>::from_reader": stub_from_reader,
        "re:NetworkOld as .*SerdeAPI>::from_file": stub_old_from_file,
    }

    def same_network(c):
        r = c.retval()
        links = r.fields[0] if hasattr(r, "fields") else r
        conds = []
        exp = fields(c)
        for k in range(N):
            for f in FIELDS:
                got = links.elems[k].fields[c.h.mir.field_index("Link", f, len(links.elems[k].fields))] if hasattr(links, "elems") else links[k][f]
                got = got.fields[0] if hasattr(got, "fields") else got
                conds.append(XEQ(got, exp[k][f]))
            # data carried through unchanged: lockout list and length
            want_lock = [x for x in net[k]["link_idxs_lockout"]]
            if hasattr(links, "elems"):
                lk = links.elems[k].fields[c.h.mir.field_index("Link", "link_idxs_lockout", len(links.elems[k].fields))]
                got_lock = [(e.fields[0] if hasattr(e, "fields") else e) for e in lk.elems]
                ln = links.elems[k].fields[c.h.mir.field_index("Link", "length", len(links.elems[k].fields))]
            else:
                got_lock = list(links[k].get("link_idxs_lockout", []))
                ln = links[k]["length"]
            conds.append(len(got_lock) == len(want_lock) and all(a == b for a, b in zip(got_lock, want_lock)))
            conds.append(EQ(ln, net[k]["length"]))
        return AND(*conds)

    claims = [
        Claim("a legacy-layout file is accepted only if the documented cross-reference rules hold", lambda c: ref_valid(fields(c), N), when="ok", role="load_accepts_only_valid"),
        Claim("a legacy-layout file is rejected only if a documented rule is broken", lambda c: NOT(ref_valid(fields(c), N)), when="err", role="load_rejects_only_invalid"),
        Claim("the loaded network carries the index fields of the file", same_network, when="ok", role="load_same_network"),
        Claim("a bad reference in a file is an error value, never a crash", None, when="nopanic", role="load_no_panic"),
    ]
    c = Case(f"network_from_file_legacy_{kind}_link{j}_{field}", "C16", None, None,
             [Call("<link_impl::Network as SerdeAPI>::from_file", [(f"&Vec<{OLD_LINK}>", old)])], assume, claims,
             bounds={"network": kind, "links": N, "file layout": "legacy (NetworkOld)", "mutated field": f"links[{j}].{field}", "value": "symbolic u32",
                     "environment": "file system and deserialisers stubbed (open succeeds, current-layout parse fails, legacy parse yields the file's network)"},
             expect_ok=False, max_paths=20000, loop_bound=80, check_side=False, free_fn=True, stubs=stubs)
    c.no_tv = True  # the interpreter cannot run the real file I/O; counterexamples are replayed natively through a temporary file
    return c


def m_cases(tier):
    tier = "thorough"  # the full case list is cheap enough to run on every change (the tiers differ only in validation vectors)
    cs = []
    lf = [("bidir2", 1, "idx_flip"), ("bidir2", 2, "idx_prev"), ("switch", 1, "idx_next_alt")] if tier == "quick" else \
        [(k, j, f) for k in ("bidir2", "switch") for j in (1, 2) for f in FIELDS]
    cs += [from_file_case(k, j, f) for (k, j, f) in lf]
    cs += special_cases(tier)
    kinds = {"bidir2": (1, 2, 3, 4), "switch": (1, 2, 3)} if tier == "quick" else {"bidir2": (1, 2, 3, 4), "switch": (1, 2, 3), "chain3": (1, 2, 3)}
    for kind, js in kinds.items():
        for j in (js if tier != "quick" else js[:2]):
            for f in FIELDS:
                cs.append(xref_case(kind, j, f))
    cs += [elevs_case(2), elevs_case(3), elevs_case(2, "Heading"), cat_case(1), cat_case(2), speed_case(1), speed_case(2), speed_case(3)]
    cs += [link_geometry_case(0, 0), link_geometry_case(2, 0), link_geometry_case(0, 1), link_geometry_case(0, 0, special="length")]
    if tier == "thorough":
        cs += [elevs_case(1), elevs_case(4), elevs_case(3, "Heading"), cat_case(3)]
    return cs
