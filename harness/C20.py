"""C20 — mass and traction-limit parameters stay mutually consistent under every update."""
from common import *  # noqa
from values import is_z3 as _isz3

from fractions import Fraction as _Fr
GQ = z3.RealVal(_Fr(9.80154849496314))


def g(x=None):
    return GQ if (x is None or _isz3(x)) else 9.80154849496314


def opt(c, acc, path):
    """Option-valued field through an accessor: None or the value"""
    return acc[path]


# ---------------------------------------------------------------- components: set_mass with every side effect


def comp_case(kind, mass0, spec0, new_mass, effect):
    """kind: fc | gen | res ; mass0/spec0/new_mass: True = Some(symbolic), False = None"""
    ty, tm, rating, spec, pfx, fn = {
        "fc": ("FuelConverter", fc_tmpl, "pwr_out_max", "specific_pwr", "fc_", "<FuelConverter as Mass>::set_mass"),
        "gen": ("Generator", gen_tmpl, "pwr_out_max", "specific_pwr", "gen_", "<Generator as Mass>::set_mass"),
        "res": ("ReversibleEnergyStorage", res_tmpl, "energy_capacity", "specific_energy", "res_", "<ReversibleEnergyStorage as Mass>::set_mass"),
    }[kind]
    t = tm(pfx, 2) if kind != "res" else tm(pfx)
    t["mass"] = Sym("m0") if mass0 else None
    t[spec] = Sym("sp0") if spec0 else None

    def assume(S):
        d = [(f"rating > 0", S[pfx + rating] > 0)]
        if mass0:
            d.append(("mass > 0", S["m0"] > 0))
        if spec0:
            d.append(("specific value > 0", S["sp0"] > 0))
        if mass0 and spec0:
            d.append(("pre-state consistent: mass = rating / specific value", S["m0"] * S["sp0"] == S[pfx + rating]))
        if new_mass:
            d.append(("new mass > 0", S["nm"] > 0))
        return d

    def consistent(c):
        m, sp = c.post["mass"], c.post[spec]
        if m is None or sp is None:
            return True
        return EQ(m * sp, c.post[rating])

    def unchanged(c):
        conds = []
        for f in ("mass", spec):
            a, b = c.pre[f], c.post[f]
            conds.append(True if (a is None and b is None) else (False if (a is None) != (b is None) else EQ(a, b)))
        conds.append(EQ(c.pre[rating], c.post[rating]))
        return AND(*conds) if not all(x is True for x in conds) else True

    def mass_is_new(c):
        m = c.post["mass"]
        if not new_mass:
            return m is None
        return (m is not None) and EQ(m, c.S["nm"])

    def effect_semantics(c):
        if not (new_mass and spec0):
            return True
        differs = NOT(XEQ(c.pre[rating], c.S["nm"] * c.S["sp0"]))
        if effect == "Extensive":
            return AND(c.post[spec] is not None and EQ(c.post[spec], c.S["sp0"]), IMP(differs, EQ(c.post[rating], c.S["sp0"] * c.S["nm"])))
        if effect == "Intensive":
            return AND(EQ(c.post[rating], c.pre[rating]), IMP(differs, (c.post[spec] is not None) and EQ(c.post[spec] * c.S["nm"], c.pre[rating])))
        return AND(EQ(c.post[rating], c.pre[rating]), IMP(differs, c.post[spec] is None))

    claims = [
        Claim("accepted update leaves mass = rating / specific value (when both known)", consistent, role="consistent_after_ok"),
        Claim("mass field is the requested mass", mass_is_new),
        Claim("side effect option does what it says", effect_semantics, role="side_effect_semantics"),
        Claim("rejected update leaves the object unchanged", unchanged, when="err", role="unchanged_after_err"),
        Claim("no_panic", None, when="nopanic"),
    ]
    name = f"{kind}_set_mass_m{int(mass0)}_s{int(spec0)}_n{int(new_mass)}_{effect}"
    return Case(name, "C20", ty, t, [Call(fn, [("Option<si::Mass>", Sym("nm") if new_mass else None), ("MassSideEffect", effect)])], assume, claims,
                bounds={"component": kind, "pre-state": f"mass {'Some' if mass0 else 'None'}, specific {'Some' if spec0 else 'None'}", "new mass": "Some" if new_mass else "None", "side effect": effect},
                expect_ok=False)


# ---------------------------------------------------------------- locomotive: mass / mu / force_max setters


def loco_base(mass, mu, derived):
    t = loco_tmpl("conv", "", 2)
    t["mass"] = Sym("m0") if mass else None
    t["mu"] = Sym("mu0") if mu else None
    conv = t["loco_type"].payload[0]
    if derived:
        t["baseline_mass"] = Sym("mbase")
        t["ballast_mass"] = Sym("mball")
        conv["fc"]["mass"] = Sym("mfc")
        conv["gen"]["mass"] = Sym("mgen")
    return t


def loco_domain20(S, mass, mu, derived):
    d = [("force_max > 0", S["force_max"] > 0)]
    if mass:
        d.append(("mass > 0", S["m0"] > 0))
    if mu:
        d.append(("0 < mu", S["mu0"] > 0))
    if mass and mu:
        d.append(("pre-state consistent: force_max = mu * mass * g", S["force_max"] == S["mu0"] * S["m0"] * GQ))
    if derived:
        d += [("component masses > 0", z3.And(S["mbase"] > 0, S["mball"] > 0, S["mfc"] > 0, S["mgen"] > 0))]
        if mass:
            d.append(("pre-state consistent: mass = sum of mass fields", S["m0"] == S["mbase"] + S["mball"] + S["mfc"] + S["mgen"]))
    return d


def force_consistent(c):
    m, mu = c.post["mass"], c.post["mu"]
    if m is None or mu is None:
        return True
    return EQ(c.post["force_max"], mu * m * g(c.post["force_max"]))


def loco_unchanged(c):
    conds = []
    for f in ("mass", "mu"):
        a, b = c.pre[f], c.post[f]
        conds.append(True if (a is None and b is None) else (False if (a is None) != (b is None) else EQ(a, b)))
    conds.append(EQ(c.pre["force_max"], c.post["force_max"]))
    return AND(*conds)


def loco_case(name, mass, mu, derived, calls, extra_claims=(), extra_assume=None):
    def assume(S):
        d = loco_domain20(S, mass, mu, derived)
        if extra_assume:
            d += extra_assume(S)
        return d

    claims = [
        Claim("accepted update leaves force_max = mu * mass * g (when both known)", force_consistent, role="force_consistent_after_ok"),
        Claim("rejected update leaves mass / mu / force_max unchanged or still consistent", lambda c: OR(loco_unchanged(c), force_consistent(c)) if force_consistent(c) is not True else True, when="err", role="unchanged_or_consistent_after_err"),
        Claim("no_panic", None, when="nopanic"),
    ] + list(extra_claims)
    return Case(name, "C20", "Locomotive", loco_base(mass, mu, derived), calls, assume, claims,
                bounds={"pre-state": f"mass {'Some' if mass else 'None'}, mu {'Some' if mu else 'None'}, component mass fields {'Some' if derived else 'None'}"}, expect_ok=False)


def loco_cases(tier):
    cs = []
    SETM = lambda m: [Call("<Locomotive as Mass>::set_mass", [("Option<si::Mass>", m), ("MassSideEffect", "None")])]
    pos = lambda n: (lambda S: [(f"{n} > 0", S[n] > 0)])
    # set_mass(Some(m)) with mu known: the documented behaviour is to update force_max to match
    cs.append(loco_case("loco_set_mass_some_mu_known", True, True, False, SETM(Sym("nm")), extra_assume=pos("nm"),
                        extra_claims=[Claim("a new mass with a known adhesion coefficient is accepted and force_max follows", lambda c: False, when="err", role="set_mass_rejected_with_mu"),
                                      Claim("mass is the requested mass", lambda c: c.post["mass"] is not None and EQ(c.post["mass"], c.S["nm"]))]))
    cs.append(loco_case("loco_set_mass_none_derived", True, True, True, SETM(None),
                        extra_claims=[Claim("mass = sum of its mass fields", lambda c: c.post["mass"] is not None and EQ(c.post["mass"], c.S["mbase"] + c.S["mball"] + c.S["mfc"] + c.S["mgen"]))]))
    FM = lambda eff: [Call("Locomotive::set_force_max", [("si::Force", Sym("nf")), ("ForceMaxSideEffect", eff)])]
    cs.append(loco_case("loco_set_force_max_Mass", True, True, False, FM("Mass"), extra_assume=pos("nf"),
                        extra_claims=[Claim("a new force_max with side effect Mass is accepted and the mass follows", lambda c: False, when="err", role="set_force_max_mass_rejected"),
                                      Claim("force_max is the requested value", lambda c: EQ(c.post["force_max"], c.S["nf"]))]))
    cs.append(loco_case("loco_set_force_max_UpdateMu", True, True, False, FM("UpdateMu"), extra_assume=pos("nf"),
                        extra_claims=[Claim("never_err", lambda c: False, when="err"), Claim("force_max is the requested value", lambda c: EQ(c.post["force_max"], c.S["nf"]))]))
    cs.append(loco_case("loco_set_force_max_SetMuToNone", True, True, False, FM("SetMuToNone"), extra_assume=pos("nf"),
                        extra_claims=[Claim("mu cleared", lambda c: c.post["mu"] is None)]))
    cs.append(loco_case("loco_set_force_max_SetMassAndMuToNone", True, True, False, FM("SetMassAndMuToNone"), extra_assume=pos("nf"),
                        extra_claims=[Claim("mass and mu cleared", lambda c: c.post["mu"] is None and c.post["mass"] is None)]))
    MU = lambda eff: [Call("Locomotive::set_mu", [("si::Ratio", Sym("nmu")), ("MuSideEffect", eff)])]
    for eff in ("Mass", "ForceMax", "SetMassToNone"):
        cs.append(loco_case(f"loco_set_mu_{eff}", True, True, False, MU(eff), extra_assume=pos("nmu"),
                            extra_claims=[Claim("never_err", lambda c: False, when="err"), Claim("mu is the requested value", lambda c: c.post["mu"] is not None and EQ(c.post["mu"], c.S["nmu"]))]))
    cs.append(loco_case("loco_set_mu_ForceMax_mu_unknown_before", True, False, False, MU("ForceMax"), extra_assume=pos("nmu")))
    return cs


def consist_case(pattern):
    """Consist mass / force_max roll-ups; pattern: one char per unit, 'S' = mass known, 'N' = unknown"""
    locos = []
    for i, ch in enumerate(pattern):
        t = loco_tmpl("conv", f"l{i}_", 2)
        t["mass"] = Sym(f"m{i}") if ch == "S" else None
        t["mu"] = None
        locos.append(t)
    recv = {"loco_vec": locos, "pdct": Variant("RESGreedy", {}), "assert_limits": True, "state": auto_state("ConsistState", "cs_"), "save_interval": None,
            "n_res_equipped": Raw(Enum_none())}
    n = len(pattern)

    def assume(S):
        return [(f"m{i} > 0", S[f"m{i}"] > 0) for i, ch in enumerate(pattern) if ch == "S"] + [(f"l{i}_force_max > 0", S[f"l{i}_force_max"] > 0) for i in range(n)]

    def mass_claim(c):
        r = c.retval()
        if all(ch == "S" for ch in pattern):
            tot = sum(c.S[f"m{i}"] for i in range(n))
            return (r is not None) and EQ(r if not hasattr(r, "fields") else r, tot)
        if all(ch == "N" for ch in pattern):
            return r is None
        return False  # mixed known/unknown masses must be rejected

    claims = [Claim("consist mass = sum of unit masses (None if none is known)", mass_claim, when="ok", role="consist_mass_sum"),
              Claim("no_panic", None, when="nopanic")]
    if all(ch == pattern[0] for ch in pattern):
        claims.append(Claim("never_err", lambda c: False, when="err"))
    else:
        claims.append(Claim("mixed known/unknown unit masses are rejected", lambda c: False, when="ok"))
    c1 = Case(f"consist_mass_{pattern}", "C20", "Consist", recv, [Call("<Consist as Mass>::mass", [])], assume, claims, bounds={"units": n, "mass known per unit": pattern}, expect_ok=False)

    def force_claim(c):
        return EQ(c.retval(), sum(c.S[f"l{i}_force_max"] for i in range(n)))
    c2 = Case(f"consist_force_max_{pattern}", "C20", "Consist", recv, [Call("Consist::force_max", [])], assume,
              [Claim("consist force_max = sum of unit force_max", force_claim, when="ok", role="consist_force_sum"), Claim("never_err", lambda c: False, when="err"), Claim("no_panic", None, when="nopanic")],
              bounds={"units": n})
    return [c1, c2]


def Enum_none():
    from values import Enum
    return Enum("Option", 0, ())


from trainparts import train_parts_case  # noqa: E402


def m_cases(tier):
    cs = []
    for (nt, om, ol, lm) in (((1, False, False, True), (2, False, False, True), (2, True, False, True), (1, True, True, False)) if tier == "quick" else
                             [(nt, om, ol, lm) for nt in (1, 2, 3) for om in (False, True) for ol in (False, True) for lm in (False, True)]):
        cs.append(train_parts_case(nt, om, ol, lm))
    for pat in ("S", "N", "SS", "NN", "SN", "NS", "SSS", "NNN", "SNS", "NSS", "SSN", "SSSS"):  # every order of known / unknown units is cheap: all in the quick tier
        cs += consist_case(pat)
    kinds = ("fc", "gen", "res")
    for kind in kinds:
        for eff in ("None", "Extensive", "Intensive"):
            cs.append(comp_case(kind, True, True, True, eff))
        cs.append(comp_case(kind, True, True, False, "None"))
        if True:  # every known / unknown combination is cheap enough for the quick tier
            for eff in ("None", "Extensive", "Intensive"):
                cs.append(comp_case(kind, False, True, True, eff))
                cs.append(comp_case(kind, True, False, True, eff))
                cs.append(comp_case(kind, False, False, True, eff))
    cs += loco_cases(tier)
    return cs
