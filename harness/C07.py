"""C07 — train resistance forces equal their physical definitions at every position."""
from common import *  # noqa
from trainparts import train_parts_case  # noqa

SC.add_wrapper("W_UpdateRes", [("res", "strap::Strap"), ("state", "TrainState"), ("path_tpc", "PathTpc")])
G = 9.80154849496314  # uc::ACC_GRAV (gravity at the geographic centre of the contiguous US)


def coeffs_tmpl(p, n):
    return [{"offset": Sym(f"{p}o{i}"), "res_coeff": Sym(f"{p}c{i}"), "res_net": Sym(f"{p}r{i}")} for i in range(n)]


def coeffs_domain(S, p, n):
    """offsets strictly increasing from 0; res_net is the running integral of res_coeff (what PathTpc::extend builds, see C06)"""
    d = [(f"{p}o0 == 0", S[f"{p}o0"] == 0)]
    for i in range(n - 1):
        d.append((f"{p}o{i} < {p}o{i+1}", S[f"{p}o{i}"] < S[f"{p}o{i+1}"]))
        d.append((f"{p}r{i+1} = {p}r{i} + {p}c{i}*({p}o{i+1}-{p}o{i}) (cumulative)", S[f"{p}r{i+1}"] == S[f"{p}r{i}"] + S[f"{p}c{i}"] * (S[f"{p}o{i+1}"] - S[f"{p}o{i}"])))
    return d


def oracle_val(S, p, n, x):
    """piecewise-linear cumulative value at x (continuous, so the boundary convention is irrelevant)"""
    val = S[f"{p}r{0}"] + S[f"{p}c{0}"] * (x - S[f"{p}o{0}"])
    for i in range(1, n - 1):
        val = IF(XLE(S[f"{p}o{i}"], x), S[f"{p}r{i}"] + S[f"{p}c{i}"] * (x - S[f"{p}o{i}"]), val)
    return val


def oracle_coeff(S, p, n, x, fwd):
    """coefficient of the segment containing x under calc_idx's convention: the forward search stops at the first i with
    offs[i+1] >= x (a position exactly on a breakpoint belongs to the segment behind it), the backward search at the last i
    with offs[i] <= x (it belongs to the segment ahead)"""
    val = S[f"{p}c{0}"]
    for i in range(1, n - 1):
        cond = XLT(S[f"{p}o{i}"], x) if fwd else XLE(S[f"{p}o{i}"], x)
        val = IF(cond, S[f"{p}c{i}"], val)
    return val


def train_state_tmpl():
    st = auto_state("TrainState", "ts_")
    st["link_idx_front"] = 1
    return st


def path_tpc_tmpl(ng, nc):
    return {"link_points": [], "grades": coeffs_tmpl("g", ng), "curves": coeffs_tmpl("k", nc), "speed_points": [], "cat_power_limits": [],
            "train_params": {"length": Sym("ts_length"), "speed_max": 30, "towed_mass_static": 1000, "mass_per_brake": 100, "axle_count": 4, "train_type": "Freight",
                             "curve_coeff_0": 0, "curve_coeff_1": 0, "curve_coeff_2": 0},
            "is_finished": False}


def update_res_case(ng, nc, dirn="Fwd", fixed=None):
    res = {"bearing": {"force": Sym("bearing")}, "rolling": {"ratio": Sym("rolling")}, "davis_b": {"davis_b": Sym("davis_b")}, "aerodynamic": {"cd_area": Sym("cd_area")},
           "grade": {"idx_front": Sym("gf", "int"), "idx_back": Sym("gb", "int")}, "curve": {"idx_front": Sym("kf", "int"), "idx_back": Sym("kb", "int")}}
    recv = {"res": res, "state": train_state_tmpl(), "path_tpc": path_tpc_tmpl(ng, nc)}

    def assume(S):
        d = coeffs_domain(S, "g", ng) + coeffs_domain(S, "k", nc)
        front, length = S["ts_offset"], S["ts_length"]
        back = front - length
        d += [("train length > 0", length > 0), ("rear of train on the path: offset - length >= 0", back >= 0),
              ("front within the path", z3.And(front <= S[f"go{ng-1}"], front <= S[f"ko{nc-1}"])),
              ("masses > 0", z3.And(S["ts_mass_static"] > 0, S["ts_mass_rot"] >= 0)), ("speed >= 0", S["ts_speed"] >= 0)]
        for (p, n, f, b) in (("g", ng, "gf", "gb"), ("k", nc, "kf", "kb")):
            # cached indices from earlier steps: valid positions, not ahead of the true ones when moving forward
            # cached indices from earlier steps (enumerated concretely): not ahead of the true ones when searching forward,
            # not behind them when searching backward
            if dirn != "Bwd":
                if S[f] > 0:
                    d.append((f"cached {p} front index {S[f]} not ahead of the front", S[f"{p}o{S[f]}"] < front))
                if S[b] > 0:
                    d.append((f"cached {p} back index {S[b]} not ahead of the rear", S[f"{p}o{S[b]}"] < back))
            else:
                d.append((f"cached {p} front index {S[f]} not behind the front", front < S[f"{p}o{S[f]+1}"]))
                d.append((f"cached {p} back index {S[b]} not behind the rear", back < S[f"{p}o{S[b]+1}"]))
            if S[b] > S[f]:
                d.append((f"cached {p} back index ahead of cached front index: not a state the code produces", False))
        return d

    W = lambda c: c.post["state.weight_static"]
    front = lambda c: c.pre["state.offset"]
    back = lambda c: c.pre["state.offset"] - c.pre["state.length"]
    claims = [
        Claim("weight_static = g * static mass", lambda c: EQ(W(c), c.pre["state.mass_static"] * tolG(c))),
        Claim("offset_back = offset - length", lambda c: EQ(c.post["state.offset_back"], back(c))),
        Claim("res_bearing = per-axle total", lambda c: EQ(c.post["state.res_bearing"], c.S["bearing"])),
        Claim("res_rolling = ratio * weight", lambda c: EQ(c.post["state.res_rolling"], c.S["rolling"] * W(c))),
        Claim("res_davis_b = coeff * speed * weight", lambda c: EQ(c.post["state.res_davis_b"], c.S["davis_b"] * c.pre["state.speed"] * W(c))),
        Claim("res_aero = cd_area * rho_air * speed^2", lambda c: EQ(c.post["state.res_aero"], c.S["cd_area"] * rho(c) * c.pre["state.speed"] * c.pre["state.speed"])),
        Claim("res_grade = weight * (elev(front) - elev(rear)) / length", lambda c: EQ(c.post["state.res_grade"] * c.pre["state.length"], W(c) * (oracle_val(c.S, "g", ng, front(c)) - oracle_val(c.S, "g", ng, back(c)))), role="grade_force"),
        Claim("res_curve = weight * (cum_curve(front) - cum_curve(rear)) / length", lambda c: EQ(c.post["state.res_curve"] * c.pre["state.length"], W(c) * (oracle_val(c.S, "k", nc, front(c)) - oracle_val(c.S, "k", nc, back(c)))), role="curve_force"),
        Claim("elev_front = elevation of the track at the front", lambda c: EQ(c.post["state.elev_front"], oracle_val(c.S, "g", ng, front(c)))),
        Claim("grade_front = grade of the track at the front", lambda c: EQ(c.post["state.grade_front"], oracle_coeff(c.S, "g", ng, front(c), dirn != "Bwd")), role="grade_front"),
        Claim("grade_back = grade of the track at the rear", lambda c: EQ(c.post["state.grade_back"], oracle_coeff(c.S, "g", ng, back(c), dirn != "Bwd")), role="grade_back"),
        Claim("no_panic", None, when="nopanic"),
    ]
    tag = "_".join(f"{k}{v}" for k, v in sorted((fixed or {}).items()))
    c = Case(f"update_res_strap_g{ng}_k{nc}_{dirn}_{tag}", "C07", "W_UpdateRes", recv,
             [Call("<method::strap::Strap as ResMethod>::update_res", [("@state", None), ("@path_tpc", None), ("&Dir", dirn)], recv_path="res")],
             assume, claims, bounds={"grade profile points": ng, "curve profile points": nc, "direction": dirn, "steps": "1 (inductive: arbitrary admissible cached indices)"},
             max_paths=40000, loop_bound=60, timeout_ms=60000,
             notes=["profiles: offsets strictly increasing, res_net the running integral of res_coeff (established by PathTpc::extend, checked in C06)"])
    c.fixed = dict(fixed or {})
    return c


def update_res_cases(ng, nc, dirn="Fwd"):
    import itertools
    out = []
    for gf, gb, kf, kb in itertools.product(range(ng - 1), range(ng - 1), range(nc - 1), range(nc - 1)):
        if gb > gf or kb > kf:
            continue
        out.append(update_res_case(ng, nc, dirn, {"gf": gf, "gb": gb, "kf": kf, "kb": kb}))
    return out


def tolG(c):
    from fractions import Fraction
    from values import is_z3
    return z3.RealVal(Fraction(9.80154849496314)) if any(is_z3(v) for v in c.S.values()) else 9.80154849496314


def rho(c):
    from fractions import Fraction
    from values import is_z3
    return z3.RealVal(Fraction(1.225)) if any(is_z3(v) for v in c.S.values()) else 1.225


def m_cases(tier):
    tp = [(1, False, False, True, False), (2, False, False, False, False), (2, True, False, True, True)] if tier == "quick" else \
        [(nt, om, False, lm, cv) for nt in (1, 2, 3) for om in (False, True) for lm in (False, True) for cv in (False, True)]
    cs0 = [train_parts_case(nt, om, ol, lm, cv, prop="C07") for (nt, om, ol, lm, cv) in tp]
    # the profile shape the update_res harnesses assume (res_net = running integral) is what PathTpc::extend has to build
    import C06
    cs0 += [C06.extend_case([(2, 2, 1), (3, 0, 0)], [[1], [2]], prop="C07"), C06.extend_case([(3, 2, 0), (2, 2, 1)], [[1, 2]], prop="C07")]
    if tier == "thorough":
        cs0 += [C06.extend_case([(2, 2, 1), (3, 2, 1), (2, 0, 0)], [[1], [2, 3]], prop="C07"), C06.extend_case([(2, 0, 0), (2, 2, 0), (2, 3, 0)], [[1, 2], [3]], prop="C07")]
    return cs0 + _m_cases(tier)


def _m_cases(tier):
    cs = update_res_cases(3, 2) + update_res_cases(4, 2) + update_res_cases(3, 2, "Bwd") + update_res_cases(2, 3, "Bwd") + update_res_cases(3, 2, "Unk")
    if tier == "thorough":
        for d in ("Fwd", "Bwd", "Unk"):
            cs += update_res_cases(4, 3, d) + update_res_cases(5, 2, d) + update_res_cases(2, 4, d)
    return cs
