"""TrainSimBuilder::make_train_sim_parts — how a train is assembled from car types, car counts and a consist (C20: masses; C07: resistance coefficients)."""
from common import *  # noqa
from values import is_z3 as _isz3
from fractions import Fraction as _Fr

GQ = z3.RealVal(_Fr(9.80154849496314))


def g(x=None):
    return GQ if (x is None or _isz3(x)) else 9.80154849496314


SC.add_wrapper("VerifTrainParts", [("train_params", "TrainParams"), ("state", "TrainState"), ("path_tpc", "PathTpc"), ("train_res", "TrainRes"), ("fric_brake", "FricBrake")])


def rv_tmpl(p, car_type):
    return {"car_type": car_type, "length": Sym(p + "len"), "axle_count": Sym(p + "axles", "int"), "brake_count": Sym(p + "brakes", "int"), "mass_static_base": Sym(p + "base"),
            "mass_freight": Sym(p + "freight"), "speed_max": Sym(p + "vmax"), "braking_ratio": Sym(p + "brk"), "mass_rot_per_axle": Sym(p + "rot"),
            "bearing_res_per_axle": Sym(p + "bearing"), "rolling_ratio": Sym(p + "rolling"), "davis_b": Sym(p + "davis"), "cd_area": Sym(p + "cda"),
            "curve_coeff_0": Sym(p + "k0"), "curve_coeff_1": Sym(p + "k1"), "curve_coeff_2": Sym(p + "k2")}


def train_parts_case(ntypes, override_mass, override_len, loco_mass, cd_vec=False, prop="C20"):
    """TrainSimBuilder::make_train_sim_parts: the static train mass is the consist's plus the cars' (or the configured override),
    rotating / freight mass and the Davis coefficients are the per-car values weighted by the car counts"""
    import traincommon as tc
    names = ["A", "B", "C"][:ntypes]
    if loco_mass:
        # a conventional unit with a set mass (a DummyLoco's derived mass is a fixed 0 kg, so it cannot carry one)
        loco = loco_tmpl("conv", "dl_", 2)
        loco["mass"] = Sym("lm")
        loco["mu"] = None
    else:
        loco = tc.dummy_loco_tmpl()
    con = tc.dummy_consist_tmpl()
    con["loco_vec"] = [loco]
    ncv = 2
    cfg = {"rail_vehicles": [rv_tmpl(f"rv{i}_", nm) for i, nm in enumerate(names)], "n_cars_by_type": {nm: Sym(f"n{i}", "int") for i, nm in enumerate(names)},
           "train_type": "Freight", "train_length": Sym("tlen") if override_len else None, "train_mass": Sym("tmass") if override_mass else None,
           "cd_area_vec": [Sym(f"cdv{j}") for j in range(ncv)] if cd_vec else None}
    recv = {"train_id": "", "train_config": cfg, "loco_con": con, "origin_id": None, "destination_id": None, "init_train_state": None}
    R = range(ntypes)

    def assume(S):
        d = []
        for i in R:
            p = f"rv{i}_"
            d += [(f"0 <= n{i} <= 300", z3.And(S[f"n{i}"] >= 0, S[f"n{i}"] <= 300)), (f"1 <= {p}axles <= 12", z3.And(S[p + "axles"] >= 1, S[p + "axles"] <= 12)),
                  (f"1 <= {p}brakes <= 12", z3.And(S[p + "brakes"] >= 1, S[p + "brakes"] <= 12)), (f"{p}base > 0", S[p + "base"] > 0), (f"{p}freight >= 0", S[p + "freight"] >= 0),
                  (f"{p}len > 0", S[p + "len"] > 0), (f"{p}vmax > 0", S[p + "vmax"] > 0), (f"{p}rot >= 0", S[p + "rot"] >= 0), (f"{p}brk >= 0", S[p + "brk"] >= 0)]
            d += [(f"{p}{f} >= 0", S[p + f] >= 0) for f in ("bearing", "rolling", "davis", "cda")]
        d.append(("at least one car", sum(S[f"n{i}"] for i in R) >= 1))
        if override_mass:
            d.append(("tmass > 0", S["tmass"] > 0))
        if override_len:
            d.append(("tlen > 0", S["tlen"] > 0))
        if loco_mass:
            d.append(("lm > 0", S["lm"] > 0))
        d.append(("dl_force_max > 0", S["dl_force_max"] > 0))
        if cd_vec:
            d += [(f"cdv{j} >= 0", S[f"cdv{j}"] >= 0) for j in range(ncv)]
            d.append(("cd_area_vec has one entry per car (TrainConfig::init)", sum(S[f"n{i}"] for i in R) == ncv))
        return d

    def cars_mass(c):
        return sum((c.S[f"rv{i}_base"] + c.S[f"rv{i}_freight"]) * c.S[f"n{i}"] for i in R)

    def towed(c):
        return c.S["tmass"] if override_mass else cars_mass(c)

    def nsum(c, f):
        return sum(c.S[f"rv{i}_{f}"] * c.S[f"n{i}"] for i in R)

    def ret(c):
        return c.ret_as("VerifTrainParts")

    def strap(c):
        return ret(c)["train_res.Strap"]

    res_claims = [
        Claim("static mass behind the train weight = cars (or the configured override) + locomotives", lambda c: EQ(ret(c)["state.mass_static"], towed(c) + (c.S["lm"] if loco_mass else 0)), when="ok", role="agg_mass_static"),
        Claim("bearing resistance = sum n * axles * bearing_res_per_axle", lambda c: EQ(strap(c)["bearing.force"], sum(c.S[f"rv{i}_bearing"] * c.S[f"rv{i}_axles"] * c.S[f"n{i}"] for i in R)), when="ok", role="agg_bearing"),
        Claim("rolling ratio = car-mass-weighted mean over the towed mass",
              lambda c: EQ(strap(c)["rolling.ratio"] * towed(c), sum(c.S[f"rv{i}_rolling"] * (c.S[f"rv{i}_base"] + c.S[f"rv{i}_freight"]) * c.S[f"n{i}"] for i in R)), when="ok", role="agg_rolling"),
        Claim("davis_b = car-mass-weighted mean over the towed mass",
              lambda c: EQ(strap(c)["davis_b.davis_b"] * towed(c), sum(c.S[f"rv{i}_davis"] * (c.S[f"rv{i}_base"] + c.S[f"rv{i}_freight"]) * c.S[f"n{i}"] for i in R)), when="ok", role="agg_davis_b"),
        Claim("drag area = sum of cd_area_vec if given, else sum n * cd_area",
              lambda c: EQ(strap(c)["aerodynamic.cd_area"], sum(c.S[f"cdv{j}"] for j in range(ncv)) if cd_vec else nsum(c, "cda")), when="ok", role="agg_cd_area"),
        Claim("resistance coefficients are non-negative", lambda c: AND(GE(strap(c)["bearing.force"], 0), GE(strap(c)["rolling.ratio"], 0), GE(strap(c)["davis_b.davis_b"], 0), GE(strap(c)["aerodynamic.cd_area"], 0)),
              when="ok", role="agg_nonneg"),
        Claim("path cursors start at the first section", lambda c: AND(EQ(strap(c)["grade.idx_front"], 0), EQ(strap(c)["grade.idx_back"], 0), EQ(strap(c)["curve.idx_front"], 0), EQ(strap(c)["curve.idx_back"], 0)),
              when="ok", role="agg_idx0"),
        Claim("no_panic", None, when="nopanic"),
        Claim("never_err", lambda c: False, when="err"),
    ]
    claims = [
        Claim("train static mass = towed mass (cars, or the configured override) + consist mass", lambda c: EQ(ret(c)["state.mass_static"], towed(c) + (c.S["lm"] if loco_mass else 0)), when="ok", role="train_mass_static"),
        Claim("towed_mass_static = configured override, else sum of car masses", lambda c: EQ(ret(c)["train_params.towed_mass_static"], towed(c)), when="ok", role="towed_mass"),
        Claim("rotating mass = sum n * axles * mass_rot_per_axle", lambda c: EQ(ret(c)["state.mass_rot"], sum(c.S[f"rv{i}_rot"] * c.S[f"n{i}"] * c.S[f"rv{i}_axles"] for i in R)), when="ok", role="mass_rot"),
        Claim("freight mass = sum n * mass_freight", lambda c: EQ(ret(c)["state.mass_freight"], nsum(c, "freight")), when="ok", role="mass_freight"),
        Claim("train length = override, else sum n * length", lambda c: EQ(ret(c)["state.length"], c.S["tlen"] if override_len else nsum(c, "len")), when="ok", role="train_length"),
        Claim("path_tpc carries the same train params", lambda c: AND(EQ(ret(c)["path_tpc.train_params.towed_mass_static"], towed(c)), EQ(ret(c)["path_tpc.train_params.length"], ret(c)["state.length"])), when="ok", role="tpc_params"),
        Claim("axle count = sum n * axles", lambda c: EQ(ret(c)["train_params.axle_count"], sum(c.S[f"n{i}"] * c.S[f"rv{i}_axles"] for i in R)), when="ok", role="axle_count"),
        Claim("friction brake force_max = g * towed mass * mean braking ratio",
              lambda c: EQ(ret(c)["fric_brake.force_max"] * sum(c.S[f"n{i}"] for i in R), g(towed(c)) * towed(c) * nsum(c, "brk")), when="ok", role="fric_brake_force"),
        Claim("no_panic", None, when="nopanic"),
        Claim("never_err", lambda c: False, when="err"),
    ]
    if prop == "C07":
        claims = res_claims
    return Case(f"train_parts_t{ntypes}_{'M' if override_mass else 'm'}{'L' if override_len else 'l'}{'C' if loco_mass else 'c'}{'V' if cd_vec else 'v'}", prop, "TrainSimBuilder", recv,
                [Call("TrainSimBuilder::make_train_sim_parts", [("Option<usize>", None)])], assume, claims,
                ret_ty="VerifTrainParts", bounds={"car types": ntypes, "cars per type": "0..300", "train_mass override": override_mass, "train_length override": override_len, "consist mass known": loco_mass})


