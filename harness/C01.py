"""C01 — the energy ledger closes: per component, per locomotive, per consist; SOC moves by chemical energy / capacity."""
from common import *  # noqa


def _dt(c, ci=0, k=1):
    return c.args[ci][k]


def acc(c, e, pw, dt):
    """cumulative energy e grew by exactly this step's power pw times dt"""
    return EQ(c.post[e], c.pre[e] + c.post[pw] * dt)


# ---------------------------------------------------------------- components


def fc_case(n):
    def assume(S):
        return fc_domain(S, "fc_", n) + [("dt > 0", S["dt"] > 0)]

    dt = lambda c: c.args[0][1]
    claims = [
        Claim("fuel=brake+loss", lambda c: EQ(c.post["state.pwr_fuel"], c.post["state.pwr_brake"] + c.post["state.pwr_loss"])),
        Claim("brake=demand", lambda c: EQ(c.post["state.pwr_brake"], c.args[0][0])),
        Claim("fuel=brake/eta+idle", lambda c: EQ(c.post["state.pwr_fuel"] * c.post["state.eta"], c.post["state.pwr_brake"] + c.post["state.pwr_idle_fuel"] * c.post["state.eta"])),
        Claim("acc_energy_brake", lambda c: acc(c, "state.energy_brake", "state.pwr_brake", dt(c))),
        Claim("acc_energy_fuel", lambda c: acc(c, "state.energy_fuel", "state.pwr_fuel", dt(c))),
        Claim("acc_energy_loss", lambda c: acc(c, "state.energy_loss", "state.pwr_loss", dt(c))),
        Claim("acc_energy_idle_fuel", lambda c: acc(c, "state.energy_idle_fuel", "state.pwr_idle_fuel", dt(c))),
    ]
    return Case(f"fc_ledger_n{n}", "C01", "FuelConverter", fc_tmpl("fc_", n),
                [Call("FuelConverter::solve_energy_consumption", [("si::Power", Sym("req")), ("si::Time", Sym("dt")), ("bool", Sym("engine_on", "bool")), ("bool", Sym("assert_limits", "bool"))])],
                assume, claims, bounds={"efficiency map points": n, "steps": "1 (inductive step from arbitrary pre-state)"})


def gen_case(n):
    def assume(S):
        return gen_domain(S, "gen_", n) + [("dt > 0", S["dt"] > 0), ("pwr_aux >= 0", S["aux"] >= 0)]

    dt = lambda c: c.args[0][2]
    claims = [
        Claim("mech_in=prop+aux+loss", lambda c: EQ(c.post["state.pwr_mech_in"], c.post["state.pwr_elec_prop_out"] + c.post["state.pwr_elec_aux"] + c.post["state.pwr_loss"])),
        Claim("prop_out=demand", lambda c: EQ(c.post["state.pwr_elec_prop_out"], c.args[0][0])),
        Claim("aux=demand", lambda c: EQ(c.post["state.pwr_elec_aux"], c.args[0][1])),
        Claim("mech_in*eta=prop+aux", lambda c: EQ(c.post["state.pwr_mech_in"] * c.post["state.eta"], c.post["state.pwr_elec_prop_out"] + c.post["state.pwr_elec_aux"])),
        Claim("acc_energy_mech_in", lambda c: acc(c, "state.energy_mech_in", "state.pwr_mech_in", dt(c))),
        Claim("acc_energy_elec_prop_out", lambda c: acc(c, "state.energy_elec_prop_out", "state.pwr_elec_prop_out", dt(c))),
        Claim("acc_energy_elec_aux", lambda c: acc(c, "state.energy_elec_aux", "state.pwr_elec_aux", dt(c))),
        Claim("acc_energy_loss", lambda c: acc(c, "state.energy_loss", "state.pwr_loss", dt(c))),
    ]
    return Case(f"gen_ledger_n{n}", "C01", "Generator", gen_tmpl("gen_", n),
                [Call("Generator::set_pwr_in_req", [("si::Power", Sym("req")), ("si::Power", Sym("aux")), ("si::Time", Sym("dt"))])],
                assume, claims, bounds={"efficiency map points": n, "steps": 1})


def edrv_case(n):
    def assume(S):
        return edrv_domain(S, "edrv_", n) + [("dt > 0", S["dt"] > 0)]

    dt = lambda c: c.args[0][1]
    claims = [
        # elec_in = mech_prop_out + loss in both directions (traction: loss added on the electrical side; regen: loss removed from what reaches the bus)
        Claim("elec_in=mech_out+loss", lambda c: EQ(c.post["state.pwr_elec_prop_in"], c.post["state.pwr_mech_prop_out"] + c.post["state.pwr_loss"])),
        Claim("req=mech_prop_out-dyn_brake", lambda c: EQ(c.args[0][0], c.post["state.pwr_mech_prop_out"] - c.post["state.pwr_mech_dyn_brake"])),
        Claim("pwr_out_req_recorded", lambda c: EQ(c.post["state.pwr_out_req"], c.args[0][0])),
        Claim("regen_bounded_by_published_limit", lambda c: GE(c.post["state.pwr_mech_prop_out"], -c.pre["state.pwr_mech_regen_max"])),
        Claim("acc_energy_elec_prop_in", lambda c: acc(c, "state.energy_elec_prop_in", "state.pwr_elec_prop_in", dt(c))),
        Claim("acc_energy_mech_prop_out", lambda c: acc(c, "state.energy_mech_prop_out", "state.pwr_mech_prop_out", dt(c))),
        Claim("acc_energy_mech_dyn_brake", lambda c: acc(c, "state.energy_mech_dyn_brake", "state.pwr_mech_dyn_brake", dt(c))),
        Claim("acc_energy_elec_dyn_brake", lambda c: acc(c, "state.energy_elec_dyn_brake", "state.pwr_elec_dyn_brake", dt(c))),
        Claim("acc_energy_loss", lambda c: acc(c, "state.energy_loss", "state.pwr_loss", dt(c))),
    ]
    return Case(f"edrv_ledger_n{n}", "C01", "ElectricDrivetrain", edrv_tmpl("edrv_", n),
                [Call("ElectricDrivetrain::set_pwr_in_req", [("si::Power", Sym("req")), ("si::Time", Sym("dt"))])],
                assume, claims, bounds={"efficiency map points": n, "steps": 1})


def res_case(ns, nc):
    def assume(S):
        return res_domain(S, "res_", ns, nc) + [("dt > 0", S["dt"] > 0), ("pwr_aux >= 0", S["aux"] >= 0)]

    dt = lambda c: c.args[0][2]
    claims = [
        Claim("chemical=electrical+loss", lambda c: EQ(c.post["state.pwr_out_chemical"], c.post["state.pwr_out_electrical"] + c.post["state.pwr_loss"])),
        Claim("electrical=propulsion+aux", lambda c: EQ(c.post["state.pwr_out_electrical"], c.post["state.pwr_out_propulsion"] + c.post["state.pwr_aux"])),
        Claim("propulsion=demand", lambda c: EQ(c.post["state.pwr_out_propulsion"], c.args[0][0])),
        Claim("aux=demand", lambda c: EQ(c.post["state.pwr_aux"], c.args[0][1])),
        Claim("soc_moves_by_chemical_energy/capacity", lambda c: EQ((c.pre["state.soc"] - c.post["state.soc"]) * c.pre["energy_capacity"], c.post["state.pwr_out_chemical"] * dt(c))),
        Claim("acc_energy_out_chemical", lambda c: acc(c, "state.energy_out_chemical", "state.pwr_out_chemical", dt(c))),
        Claim("acc_energy_out_electrical", lambda c: acc(c, "state.energy_out_electrical", "state.pwr_out_electrical", dt(c))),
        Claim("acc_energy_out_propulsion", lambda c: acc(c, "state.energy_out_propulsion", "state.pwr_out_propulsion", dt(c))),
        Claim("acc_energy_aux", lambda c: acc(c, "state.energy_aux", "state.pwr_aux", dt(c))),
        Claim("acc_energy_loss", lambda c: acc(c, "state.energy_loss", "state.pwr_loss", dt(c))),
    ]
    return Case(f"res_ledger_{ns}x{nc}", "C01", "ReversibleEnergyStorage", res_tmpl("res_", ns, nc),
                [Call("ReversibleEnergyStorage::solve_energy_consumption", [("si::Power", Sym("req")), ("si::Power", Sym("aux")), ("si::Time", Sym("dt"))])],
                assume, claims, bounds={"eta grid": f"1 x {ns} x {nc}", "steps": 1}, stubs={"utils::interp3d": interp3d_contract},
                notes=["utils::interp3d replaced by its contract (proved by C08's interp3d_contract_* harnesses)"])


# ---------------------------------------------------------------- locomotives (driven exactly like LocomotiveSimulation::solve_step)


def conv_loco_case(n):
    P = "loco_type.ConventionalLoco."

    def assume(S):
        return loco_domain(S, "conv", "", n) + [("dt > 0", S["dt"] > 0)]

    def dt(c):
        return c.args[2][1]

    def eng_on(c):
        return c.S["engine_on"]

    claims = [
        Claim("handoff: engine shaft = generator input", lambda c: EQ(c.post[P + "fc.state.pwr_brake"], c.post[P + "gen.state.pwr_mech_in"])),
        Claim("handoff: generator output = drivetrain input", lambda c: EQ(c.post[P + "gen.state.pwr_elec_prop_out"], c.post[P + "edrv.state.pwr_elec_prop_in"])),
        Claim("handoff: generator aux = locomotive aux (0 when engine off)", lambda c: EQ(c.post[P + "gen.state.pwr_elec_aux"], IF(eng_on(c), c.post["state.pwr_aux"], 0))),
        Claim("loco pwr_out = prop_out - dyn_brake", lambda c: EQ(c.post["state.pwr_out"], c.post[P + "edrv.state.pwr_mech_prop_out"] - c.post[P + "edrv.state.pwr_mech_dyn_brake"])),
        Claim("loco pwr_out = demand", lambda c: EQ(c.post["state.pwr_out"], c.args[2][0])),
        Claim("ledger: fuel = wheel + dyn_brake + aux + losses", lambda c: EQ(
            c.post[P + "fc.state.pwr_fuel"],
            c.post["state.pwr_out"] + c.post[P + "edrv.state.pwr_mech_dyn_brake"] + c.post[P + "gen.state.pwr_elec_aux"]
            + c.post[P + "fc.state.pwr_loss"] + c.post[P + "gen.state.pwr_loss"] + c.post[P + "edrv.state.pwr_loss"])),
        Claim("acc loco energy_out", lambda c: acc(c, "state.energy_out", "state.pwr_out", dt(c))),
        Claim("acc loco energy_aux", lambda c: acc(c, "state.energy_aux", "state.pwr_aux", dt(c))),
        Claim("acc fc energy_fuel", lambda c: acc(c, P + "fc.state.energy_fuel", P + "fc.state.pwr_fuel", dt(c))),
        Claim("acc gen energy_mech_in", lambda c: acc(c, P + "gen.state.energy_mech_in", P + "gen.state.pwr_mech_in", dt(c))),
        Claim("acc edrv energy_mech_prop_out", lambda c: acc(c, P + "edrv.state.energy_mech_prop_out", P + "edrv.state.pwr_mech_prop_out", dt(c))),
        Claim("engine off: no aux", lambda c: IMP(NOT(eng_on(c)), EQ(c.post["state.pwr_aux"], 0))),
        Claim("no_panic", None, when="nopanic"),
    ]
    return Case(f"conv_loco_step_n{n}", "C01", "Locomotive", loco_tmpl("conv", "", n), LOCO_STEP(), assume, claims,
                bounds={"efficiency map points per component": n, "steps": "1 solve_step sequence (set_pwr_aux; set_cur_pwr_max_out; solve_energy_consumption) from an arbitrary pre-state"},
                stubs={"utils::interp1d": interp1d_contract}, max_paths=20000, timeout_ms=60000,
                notes=["utils::interp1d replaced by its contract (result within [min,max] of the map values; proved by C08's interp1d_contract_* harnesses); the exact interpolation is covered by the per-component harnesses"])


def bel_loco_case(n):
    P = "loco_type.BatteryElectricLoco."

    def assume(S):
        return loco_domain(S, "bel", "", n) + [("dt > 0", S["dt"] > 0)]

    def dt(c):
        return c.args[2][1]

    claims = [
        Claim("handoff: battery electrical output = propulsion + aux", lambda c: EQ(c.post[P + "res.state.pwr_out_electrical"], c.post[P + "edrv.state.pwr_elec_prop_in"] + c.post[P + "res.state.pwr_aux"])),
        Claim("handoff: battery propulsion = drivetrain input", lambda c: EQ(c.post[P + "res.state.pwr_out_propulsion"], c.post[P + "edrv.state.pwr_elec_prop_in"])),
        Claim("loco pwr_out = prop_out - dyn_brake", lambda c: EQ(c.post["state.pwr_out"], c.post[P + "edrv.state.pwr_mech_prop_out"] - c.post[P + "edrv.state.pwr_mech_dyn_brake"])),
        Claim("loco pwr_out = demand", lambda c: EQ(c.post["state.pwr_out"], c.args[2][0])),
        Claim("ledger: chemical = wheel + dyn_brake + aux + losses", lambda c: EQ(
            c.post[P + "res.state.pwr_out_chemical"],
            c.post["state.pwr_out"] + c.post[P + "edrv.state.pwr_mech_dyn_brake"] + c.post[P + "res.state.pwr_aux"]
            + c.post[P + "res.state.pwr_loss"] + c.post[P + "edrv.state.pwr_loss"])),
        Claim("soc_moves_by_chemical_energy/capacity", lambda c: EQ((c.pre[P + "res.state.soc"] - c.post[P + "res.state.soc"]) * c.pre[P + "res.energy_capacity"], c.post[P + "res.state.pwr_out_chemical"] * dt(c))),
        Claim("acc loco energy_out", lambda c: acc(c, "state.energy_out", "state.pwr_out", dt(c))),
        Claim("acc res energy_out_chemical", lambda c: acc(c, P + "res.state.energy_out_chemical", P + "res.state.pwr_out_chemical", dt(c))),
        Claim("under traction the battery carries the whole auxiliary load the locomotive books", lambda c: IMP(XGT(c.post[P + "edrv.state.pwr_elec_prop_in"], 0), EQ(c.post[P + "res.state.pwr_aux"], c.post["state.pwr_aux"])), role="aux_fully_supplied_in_traction"),
        Claim("battery aux never above locomotive aux", lambda c: LE(c.post[P + "res.state.pwr_aux"], c.post["state.pwr_aux"])),
        Claim("no_panic", None, when="nopanic"),
    ]
    return Case(f"bel_loco_step_n{n}", "C01", "Locomotive", loco_tmpl("bel", "", n), LOCO_STEP(), assume, claims,
                bounds={"efficiency map points": n, "eta grid": "1x2x2", "steps": "1 solve_step sequence from an arbitrary pre-state"},
                stubs={"utils::interp3d": interp3d_contract, "utils::interp1d": interp1d_contract}, max_paths=20000, timeout_ms=60000,
                notes=["utils::interp1d / interp3d replaced by their contracts (proved by C08's interp*_contract_* harnesses); exact interpolation is covered by the per-component harnesses"])


def consist_cases(tier):
    """consist-level fuel, battery and wheel totals equal the sums over the locomotives (the roll-up harness shared with C11)"""
    import C11
    cs = [C11.consist_rollup_case("CB", "RESGreedy", prop="C01")]
    if tier == "thorough":
        cs += [C11.consist_rollup_case("BC", "Proportional", prop="C01"), C11.consist_rollup_case("CC", "RESGreedy", prop="C01")]
    return cs


def m_cases(tier):
    return _m_cases(tier) + consist_cases(tier)


def _m_cases(tier):
    cs = [fc_case(3), gen_case(3), edrv_case(3), res_case(2, 2), conv_loco_case(2), bel_loco_case(2)]
    if tier == "thorough":
        cs += [fc_case(4), gen_case(4), edrv_case(4), res_case(3, 2), conv_loco_case(3), bel_loco_case(3)]
    return cs
