"""C05 (partial) — dispatch never reads outside its buffers: the unsafe sentinel searches of free_path.rs (engine K: Kani)."""

F = "meet_pass::train_disp::free_path::"
SHAPE = "last diverge node carries the sentinel train and a disp_node_idx different from every other node's (the shape TrainDisp::new / update_free_path maintain)"


def k_harnesses(tier):
    hs = [
        ("c05_calc_idx_sentinels", 900, [F + "calc_idx_sentinels"], ["div_idx < len", SHAPE], {"diverge nodes": "1..5", "unwind": 7}),
        ("c05_find_train_intersect_single", 900, [F + "find_train_intersect (LinkOptType::Single)"], ["idx_sentinel < len (asserted by the function)", "link indices on the path index links_blocked in range"], {"path length": "1..5", "unwind": 7}),
        ("c05_find_train_intersect_range", 900, [F + "find_train_intersect (LinkOptType::Range)"], ["idx_sentinel < len", "range width <= 16 (LinkOptType::new)", "link indices index links_blocked in range"], {"path length": "1..5", "unwind": 7}),
        ("c05_find_train_intersect_check", 900, [F + "find_train_intersect (LinkOptType::Check)"], ["idx_sentinel < len", "link indices index links_blocked in range"], {"path length": "1..5", "unwind": 7}),
    ]
    hs.append(("c05_check_deadlock_replans_every_unfinished_train", 900, ["meet_pass::dispatch::check_deadlock"],
               ["TrainDisp::update_free_path replaced by a stub that records the visit and returns an arbitrary status (never Err)", "trains with empty paths: finished iff their free index is 0"],
               {"trains": "3 + the dummy at index 0", "finished flags, begin index, moved train": "symbolic", "unwind": 6}))
    abt = ["l2_a02", "l3_a13", "l3_a22"] if tier == "quick" else ["l1_a01", "l2_a02", "l2_a12", "l3_a03", "l3_a13", "l3_a22", "l3_a02", "l4_a24", "l4_a13"]
    for a in abt:
        ln, a0, a1 = int(a[1]), int(a[4]), int(a[5])
        hs.append((f"c05_add_blocking_trains_{a}", 900, [F + "add_blocking_trains"], ["base view ends at trains_blocking.len()", "add view inside trains_blocking"],
                   {"trains_blocking length": ln, "add view": f"[{a0},{a1}) (concrete)", "base view start": "symbolic 0..len", "unwind": 8}))
    return hs
