"""Shared pieces for the speed-profile harnesses (C02, C13)."""
from common import *  # noqa

INSERT = "<Vec<SpeedLimitPoint> as InsertSpeed>::insert_speed"


def profile_tmpl(n):
    return [{"offset": Sym(f"o{i}"), "speed_limit": Sym(f"v{i}")} for i in range(n)]


def restriction_tmpl():
    return {"offset_start": Sym("rs"), "offset_end": Sym("re"), "speed": Sym("rv")}


def profile_domain(S, n, canonical=True, restriction=True):
    d = [("first offset >= 0", S["o0"] >= 0)]
    for i in range(n - 1):
        d.append((f"o{i} <= o{i+1} (sorted)", S[f"o{i}"] <= S[f"o{i+1}"]))
    for i in range(n - 2):
        d.append((f"o{i} != o{i+2} (no offset three times)", S[f"o{i}"] != S[f"o{i+2}"]))
    for i in range(n):
        d.append((f"v{i} > 0", S[f"v{i}"] > 0))
    if canonical:
        for i in range(n - 1):
            d.append((f"v{i} != v{i+1} (no redundant equal neighbours)", S[f"v{i}"] != S[f"v{i+1}"]))
    if restriction:
        d += [("restriction: first offset <= start < end (non-empty)", z3.And(S["o0"] <= S["rs"], S["rs"] < S["re"])), ("restriction speed > 0", S["rv"] > 0)]
    d += [("query position x >= first offset", S["x"] >= S["o0"])]
    return d


def plen(p):
    return p.len()


def eval_profile_strict(p, x):
    """step function: the limit in force at x is the one of the last point whose offset is <= x
    (positions are compared exactly: they are inputs or copies of inputs, never computed)"""
    n = plen(p)
    val = p["0.speed_limit"]
    for i in range(1, n):
        val = IF(XLE(p[f"{i}.offset"], x), p[f"{i}.speed_limit"], val)
    return val


def covers(c, x):
    return AND(XLE(c.S["rs"], x), XLT(x, c.S["re"]))


def expected(c, x):
    pre = eval_profile_strict(c.pre, x)
    return IF(covers(c, x), MIN(pre, c.S["rv"]), pre)
