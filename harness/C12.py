"""C12 — time, position and distance bookkeeping is kinematically consistent."""
from traincommon import *  # noqa
import C14


def link_oracle(c, x, nlp):
    """(link index, base offset) of the link that contains position x: base < x <= base + length"""
    lp = lambda k: (0 if k == 0 else c.S[f"lp{k}"])
    idx, base = 1, lp(0)
    for k in range(1, nlp - 1):
        cond = XLT(lp(k), x)
        idx = IF(cond, k + 1, idx)
        base = IF(cond, lp(k), base)
    return idx, base


def step_kinematics_case(i, npts, nlp=3):
    base_case = C14.step_case(i, npts, nlp)

    dtr = lambda c: c.S[f"t{i}"] - c.S[f"t{i-1}"]
    mean = lambda c: (c.S[f"v{i}"] + c.S[f"v{i-1}"]) / 2

    def link_claim(c):
        idx, base = link_oracle(c, c.post["state.offset"], nlp)
        return AND(EQ(c.post["state.offset_in_link"], c.post["state.offset"] - base), EQ(c.post["state.link_idx_front"], idx))

    claims = [
        Claim("saved time = previous time stamp + step size", lambda c: EQ(c.post["state.time"], c.S[f"t{i-1}"] + c.post["state.dt"])),
        Claim("saved step size = trace step size", lambda c: EQ(c.post["state.dt"], dtr(c))),
        Claim("front advances by step size * mean of the speeds before and after", lambda c: EQ(c.post["state.offset"] - c.pre["state.offset"], dtr(c) * mean(c)), role="offset_advance"),
        Claim("total distance grows by |position change|", lambda c: EQ(c.post["state.total_dist"] - c.pre["state.total_dist"], ABS(dtr(c) * mean(c))), role="total_dist"),
        Claim("rear position = front position - train length", lambda c: EQ(c.post["state.offset_back"], c.post["state.offset"] - c.pre["state.length"]), role="offset_back"),
        Claim("front link and in-link offset identify the front position", link_claim, role="link_and_offset"),
        Claim("in-link offset inside the link: 0 < offset_in_link", lambda c: GT(c.post["state.offset_in_link"], 0)),
        Claim("no_panic", None, when="nopanic"),
    ]
    c = Case(f"set_speed_step_kinematics_i{i}_of{npts}_lp{nlp}", "C12", "SetSpeedTrainSim", base_case.recv, base_case.calls, base_case.assume, claims,
             bounds=base_case.bounds, notes=base_case.notes, max_paths=20000, timeout_ms=60000)
    return c


def link_offset_case(nlp):
    """train_state::set_link_and_offset on a path of nlp link points, position anywhere (boundaries included)"""
    recv = train_state_tmpl(1)
    tpc = path_tpc_tmpl(nlp)

    def assume(S):
        return path_domain(S, nlp) + [("0 < position <= last link point", z3.And(S["ts_offset"] > 0, S["ts_offset"] <= S[f"lp{nlp-1}"]))]

    def link_claim(c):
        idx, base = link_oracle(c, c.pre["offset"], nlp)
        return AND(EQ(c.post["offset_in_link"], c.pre["offset"] - base), EQ(c.post["link_idx_front"], idx))

    def within(c):
        idx, base = link_oracle(c, c.pre["offset"], nlp)
        nxt = c.S[f"lp{nlp-1}"]
        for k in range(nlp - 2, 0, -1):
            nxt = IF(XLT(c.S[f"lp{k}"], c.pre["offset"]), nxt if k == nlp - 2 else nxt, nxt)
        return GT(c.post["offset_in_link"], 0)

    claims = [
        Claim("base offset of the reported link + in-link offset = position, reported link is the one containing it", link_claim, role="link_and_offset"),
        Claim("0 < in-link offset", within),
        Claim("position itself untouched", lambda c: EQ(c.post["offset"], c.pre["offset"])),
        Claim("never_err", lambda c: False, when="err"),
        Claim("no_panic", None, when="nopanic"),
    ]
    return Case(f"set_link_and_offset_lp{nlp}", "C12", "TrainState", recv, [Call("train_state::set_link_and_offset", [("&PathTpc", tpc)])], assume, claims,
                bounds={"link points": nlp, "position": "symbolic, link boundaries included"})


def speed_limit_kinematics_case(ramp0=True, dtv=1, mass=1000):
    """SpeedLimitTrainSim::solve_required_pwr: the same bookkeeping in the speed-limited simulation, from an arbitrary state"""
    import slstep
    recv = slstep.sl_step_recv(ramp0, dtv, mass)
    dt = lambda c: c.pre["state.dt"]
    v0 = lambda c: c.pre["state.speed"]
    v1 = lambda c: c.post["state.speed"]
    # the new speed is snapped to the target when they agree to 1e-8 (utils::almost_eq): positions are advanced with the unsnapped value,
    # so the mean-speed relation holds up to that snap
    snap = lambda c: eps8(c.post["state.speed_target"]) * (ABS(c.post["state.speed_target"]) + ABS(v1(c))) + eps8(c.post["state.speed_target"])
    adv = lambda c: c.post["state.offset"] - c.pre["state.offset"]

    claims = [
        Claim("time advances by exactly the step size", lambda c: EQ(c.post["state.time"], c.pre["state.time"] + dt(c)), when="ok", role="sl_time"),
        Claim("step size itself is not changed by the step", lambda c: EQ(c.post["state.dt"], dt(c)), when="ok", role="sl_dt"),
        Claim("front advances by step size * mean of the speeds before and after (steps whose new speed is not snapped onto the target)",
              lambda c: IMP(NOT(XEQ(v1(c), c.post["state.speed_target"])), EQ(adv(c), dt(c) * (v0(c) + v1(c)) / 2)), when="ok", role="sl_offset_advance"),
        Claim("total distance grows by |position change|", lambda c: EQ(c.post["state.total_dist"] - c.pre["state.total_dist"], ABS(adv(c))), when="ok", role="sl_total_dist"),
        Claim("rear position = front position - train length", lambda c: EQ(c.post["state.offset_back"], c.post["state.offset"] - c.pre["state.length"]), when="ok", role="sl_offset_back"),
        Claim("train length and masses untouched", lambda c: AND(EQ(c.post["state.length"], c.pre["state.length"]), EQ(c.post["state.mass_static"], c.pre["state.mass_static"])), when="ok", role="sl_frame"),
        Claim("no_panic", None, when="nopanic", role="sl_no_panic"),
    ]
    return Case(f"speed_limit_step_kinematics_{'ramp0' if ramp0 else 'ramp'}_dt{dtv}_m{mass}".replace(".", "p"), "C12", "SpeedLimitTrainSim", recv, [Call("SpeedLimitTrainSim::solve_required_pwr", [])],
                lambda S: slstep.sl_step_domain(S, ramp0), claims,
                bounds={"braking points": 2, "consist": "one DummyLoco", "brake ramp-up time": "0 (what TrainSimBuilder sets)" if ramp0 else "symbolic > 0", "steps": "1 from an arbitrary state (inductive)",
                        "step size": f"{dtv} s (concrete)", "train mass": f"{mass} kg (concrete)"},
                max_paths=20000, timeout_ms=60000, check_side=False)


def m_cases(tier):
    cs = [speed_limit_kinematics_case(True)] + _m_cases(tier)
    if tier == "thorough":
        cs.append(speed_limit_kinematics_case(False))
    return cs


def _m_cases(tier):
    cs = [step_kinematics_case(1, 2), step_kinematics_case(2, 3), link_offset_case(3), link_offset_case(4)]
    if tier == "thorough":
        cs += [step_kinematics_case(1, 3, 4), step_kinematics_case(3, 4, 4), link_offset_case(2), link_offset_case(5), link_offset_case(6)]
    return cs
