"""Shared templates for the train-level harnesses (C11, C12, C14)."""
from common import *  # noqa
from values import Enum as _En

NONE_RAW = Raw(_En("Option", 0, ()))


def dummy_loco_tmpl(p="dl_"):
    return {"loco_type": Variant("DummyLoco", {}), "state": auto_state("LocomotiveState", p + "ls_"), "mass": None, "mu": None, "ballast_mass": None, "baseline_mass": None,
            "save_interval": None, "assert_limits": False, "pwr_aux_offset": 0, "pwr_aux_traction_coeff": 0, "force_max": Sym(p + "force_max")}


def dummy_consist_tmpl():
    """a consist of one DummyLoco (unlimited power, accepts every demand): keeps the train-level bookkeeping replayable on the real build"""
    return {"loco_vec": [dummy_loco_tmpl()], "pdct": Variant("RESGreedy", {}), "assert_limits": False, "state": auto_state("ConsistState", "cs_"),
            "save_interval": None, "n_res_equipped": NONE_RAW}


def coeffs2(p):
    return [{"offset": 0, "res_coeff": Sym(p + "c0"), "res_net": Sym(p + "r0")}, {"offset": Sym(p + "o1"), "res_coeff": 0, "res_net": Sym(p + "r1")}]


def strap_res_tmpl():
    return Variant("Strap", {"bearing": {"force": Sym("bearing")}, "rolling": {"ratio": Sym("rolling")}, "davis_b": {"davis_b": Sym("davis_b")}, "aerodynamic": {"cd_area": Sym("cd_area")},
                             "grade": {"idx_front": 0, "idx_back": 0}, "curve": {"idx_front": 0, "idx_back": 0}})


def link_points_tmpl(n):
    return [{"offset": (0 if i == 0 else Sym(f"lp{i}")), "grade_count": 0, "curve_count": 0, "cat_power_count": 0, "link_idx": (i + 1 if i < n - 1 else 0)} for i in range(n)]


def path_tpc_tmpl(nlp):
    return {"link_points": link_points_tmpl(nlp), "grades": coeffs2("g"), "curves": coeffs2("k"), "speed_points": [{"offset": 0, "speed_limit": 30}], "cat_power_limits": [],
            "train_params": {"length": Sym("ts_length"), "speed_max": 30, "towed_mass_static": 1000, "mass_per_brake": 100, "axle_count": 4, "train_type": "Freight",
                             "curve_coeff_0": 0, "curve_coeff_1": 0, "curve_coeff_2": 0},
            "is_finished": False}


def train_state_tmpl(i):
    st = auto_state("TrainState", "ts_")
    st["i"] = i
    st["link_idx_front"] = 1
    return st


def path_domain(S, nlp):
    d = []
    for p in ("g", "k"):
        d += [(f"{p}o1 > 0", S[p + "o1"] > 0), (f"{p}r1 = {p}r0 + {p}c0*{p}o1 (cumulative)", S[p + "r1"] == S[p + "r0"] + S[p + "c0"] * S[p + "o1"])]
    prev = 0
    for i in range(1, nlp):
        d.append((f"link point offsets strictly increasing: lp{i}", S[f"lp{i}"] > prev))
        prev = S[f"lp{i}"]
    return d


def fric_brake_tmpl(p="fb_"):
    return {"force_max": Sym(p + "force_max"), "ramp_up_time": 0, "ramp_up_coeff": Sym(p + "ramp_up_coeff"), "state": auto_state("FricBrakeState", p + "s_"), "save_interval": None}


def slts_tmpl(consist, i=1, nlp=3, points=None):
    """SpeedLimitTrainSim around a given consist template"""
    return {"train_id": "", "origs": [], "dests": [], "loco_con": consist, "state": train_state_tmpl(i), "train_res": strap_res_tmpl(), "path_tpc": path_tpc_tmpl(nlp),
            "braking_points": {"points": points or [], "idx_curr": 0}, "fric_brake": fric_brake_tmpl(), "save_interval": None, "simulation_days": None, "scenario_year": None}
