"""C09 — accepted steps respect ratings, transient limits, ramp rate and the SOC window."""
from common import *  # noqa


# ---------------------------------------------------------------- fuel converter


def fc_limit_case(n):
    """publish the transient limit, then solve at an adversarial demand"""
    def assume(S):
        return fc_domain(S, "fc_", n) + [("dt > 0", S["dt"] > 0), ("fc_pwr_out_max_init <= fc_pwr_out_max", S["fc_pwr_out_max_init"] <= S["fc_pwr_out_max"]),
                                          ("previous shaft power >= 0", S["fc_s_pwr_brake"] >= 0)]

    def floor(c):
        return MAX(c.pre["pwr_out_max_init"], c.pre["pwr_out_max"] / 10)

    def published(c):
        return c.post["state.pwr_out_max"]

    def ramp(c):
        return c.pre["state.pwr_brake"] + c.pre["pwr_out_max"] / c.pre["pwr_ramp_lag"] * c.S["dt"]

    claims = [
        Claim("published_limit_never_above_rating", lambda c: LE(published(c), c.pre["pwr_out_max"]), when="ret"),
        Claim("published_limit_rises_no_faster_than_ramp_above_previous_shaft_power", lambda c: LE(published(c), MAX(ramp(c), floor(c))), when="ret", role="ramp_rate"),
        Claim("published_limit_is_min(ramp,rating)_floored", lambda c: EQ(published(c), MAX(MIN(ramp(c), c.pre["pwr_out_max"]), floor(c))), when="ret"),
        Claim("published_limit_nonneg", lambda c: GE(published(c), 0), when="ret"),
        Claim("accepted_shaft_power_within_rating(+TOL)", lambda c: IMP(c.S["assert_limits"], LT(c.post["state.pwr_brake"], almost_le_bound(c.pre["pwr_out_max"])))),
        Claim("accepted_shaft_power_within_published_transient_limit(+TOL)", lambda c: IMP(c.S["assert_limits"], LT(c.post["state.pwr_brake"], almost_le_bound(published(c))))),
        Claim("accepted_shaft_power_nonneg", lambda c: GE(c.post["state.pwr_brake"], 0)),
        Claim("no_panic", None, when="nopanic"),
    ]
    return Case(f"fc_limits_n{n}", "C09", "FuelConverter", fc_tmpl("fc_", n),
                [Call("FuelConverter::set_cur_pwr_out_max", [("si::Time", Sym("dt"))]),
                 Call("FuelConverter::solve_energy_consumption", [("si::Power", Sym("req")), ("si::Time", Sym("dt")), ("bool", Sym("engine_on", "bool")), ("bool", Sym("assert_limits", "bool"))])],
                assume, claims, bounds={"efficiency map points": n, "steps": "publish + solve, arbitrary pre-state (previous shaft power, previous published limit symbolic)"})


def fc_over_limit_rejected(n):
    """a demand clearly above the published limit must come back as Err when limits are asserted"""
    def assume(S):
        return fc_domain(S, "fc_", n) + [("dt > 0", S["dt"] > 0), ("demand above published limit by more than the tolerance",
                                                                  z3.And(S["req"] >= S["fc_s_pwr_out_max"] * (1 + TOLQ), S["req"] >= S["fc_s_pwr_out_max"] + TOLQ))]

    claims = [Claim("over_limit_demand_is_rejected", lambda c: False, when="ok")]
    return Case(f"fc_over_limit_n{n}", "C09", "FuelConverter", fc_tmpl("fc_", n),
                [Call("FuelConverter::solve_energy_consumption", [("si::Power", Sym("req")), ("si::Time", Sym("dt")), ("bool", Sym("engine_on", "bool")), ("bool", True)])],
                assume, claims, expect_ok=False, bounds={"efficiency map points": n})


# ---------------------------------------------------------------- generator / drivetrain


def gen_case(n):
    def assume(S):
        return gen_domain(S, "gen_", n) + in_frac_monotone(S, "gen_", n) + [("dt > 0", S["dt"] > 0), ("pwr_aux >= 0", S["aux"] >= 0), ("pwr_in_max >= 0", S["pin"] >= 0)]

    claims = [
        Claim("published_elec_out_max_within_rating", lambda c: LE(c.post["state.pwr_elec_out_max"], c.pre["pwr_out_max"]), when="ret"),
        Claim("published_prop_out_max=out_max-aux", lambda c: EQ(c.post["state.pwr_elec_prop_out_max"], c.post["state.pwr_elec_out_max"] - c.S["aux"]), when="ret"),
        Claim("published_prop_out_max_not_below_-aux", lambda c: GE(c.post["state.pwr_elec_prop_out_max"], -c.S["aux"]), when="ret"),
        Claim("accepted_output_within_rating", lambda c: LE(c.post["state.pwr_elec_prop_out"] + c.post["state.pwr_elec_aux"], c.pre["pwr_out_max"])),
        Claim("accepted_propulsion_nonneg (generator cannot regenerate)", lambda c: GE(c.post["state.pwr_elec_prop_out"], 0)),
        Claim("no_panic", None, when="nopanic"),
    ]
    return Case(f"gen_limits_n{n}", "C09", "Generator", gen_tmpl("gen_", n),
                [Call("Generator::set_cur_pwr_max_out", [("si::Power", Sym("pin")), ("Option<si::Power>", Sym("aux"))]),
                 Call("Generator::set_pwr_in_req", [("si::Power", Sym("req")), ("si::Power", Sym("aux")), ("si::Time", Sym("dt"))])],
                assume, claims, bounds={"efficiency map points": n})


def edrv_case(n):
    def assume(S):
        return edrv_domain(S, "edrv_", n) + in_frac_monotone(S, "edrv_", n) + [("dt > 0", S["dt"] > 0), ("pwr_in_max >= 0", S["pin"] >= 0), ("pwr_max_regen_in >= 0", S["pregen"] >= 0)]

    claims = [
        Claim("published_mech_out_max_within_rating", lambda c: LE(c.post["state.pwr_mech_out_max"], c.pre["pwr_out_max"]), when="ret"),
        Claim("published_mech_out_max_nonneg", lambda c: GE(c.post["state.pwr_mech_out_max"], 0), when="ret"),
        Claim("published_regen_max_within_rating", lambda c: AND(GE(c.post["state.pwr_mech_regen_max"], 0), LE(c.post["state.pwr_mech_regen_max"], c.pre["pwr_out_max"]))),
        Claim("accepted_traction_within_rating", lambda c: LE(c.post["state.pwr_mech_prop_out"], c.pre["pwr_out_max"])),
        Claim("accepted_regen_within_published_regen_limit", lambda c: GE(c.post["state.pwr_mech_prop_out"], -c.post["state.pwr_mech_regen_max"])),
        Claim("no_panic", None, when="nopanic"),
    ]
    return Case(f"edrv_limits_n{n}", "C09", "ElectricDrivetrain", edrv_tmpl("edrv_", n),
                [Call("ElectricDrivetrain::set_cur_pwr_max_out", [("si::Power", Sym("pin")), ("Option<si::Power>", None)]),
                 Call("ElectricDrivetrain::set_cur_pwr_regen_max", [("si::Power", Sym("pregen"))]),
                 Call("ElectricDrivetrain::set_pwr_in_req", [("si::Power", Sym("req")), ("si::Time", Sym("dt"))])],
                assume, claims, bounds={"efficiency map points": n})


# ---------------------------------------------------------------- battery


def res_limit_case(ns, nc):
    P = "res_"

    def assume(S):
        return res_domain(S, P, ns, nc) + [("dt > 0", S["dt"] > 0), ("pwr_aux >= 0", S["aux"] >= 0)]

    def lin(c, lo, hi, y_lo, y_hi):
        soc = c.pre["state.soc"]
        return IF(LE(soc, lo), y_lo, IF(GE(soc, hi), y_hi, y_lo + (y_hi - y_lo) * (soc - lo) / (hi - lo)))

    claims = [
        Claim("published_discharge_limit_in_[0,rating]", lambda c: AND(GE(c.post["state.pwr_disch_max"], 0), LE(c.post["state.pwr_disch_max"], c.pre["pwr_out_max"])), when="ret"),
        Claim("published_charge_limit_in_[0,rating]", lambda c: AND(GE(c.post["state.pwr_charge_max"], 0), LE(c.post["state.pwr_charge_max"], c.pre["pwr_out_max"])), when="ret"),
        Claim("discharge_limit_is_linear_derating_between_min_soc_and_ramp_start",
              lambda c: EQ(c.post["state.pwr_disch_max"] * (c.pre["soc_lo_ramp_start"] - c.pre["min_soc"]),
                           lin(c, c.pre["min_soc"], c.pre["soc_lo_ramp_start"], 0, c.pre["pwr_out_max"]) * (c.pre["soc_lo_ramp_start"] - c.pre["min_soc"])), when="ret", role="derating_ramp"),
        Claim("charge_limit_is_linear_derating_between_ramp_start_and_max_soc",
              lambda c: EQ(c.post["state.pwr_charge_max"] * (c.pre["max_soc"] - c.pre["soc_hi_ramp_start"]),
                           lin(c, c.pre["soc_hi_ramp_start"], c.pre["max_soc"], c.pre["pwr_out_max"], 0) * (c.pre["max_soc"] - c.pre["soc_hi_ramp_start"])), when="ret", role="derating_ramp"),
        Claim("published_prop_out_max=disch_max-aux", lambda c: EQ(c.post["state.pwr_prop_out_max"], c.post["state.pwr_disch_max"] - c.S["aux"]), when="ret"),
        Claim("published_regen_out_max=charge_max+aux", lambda c: EQ(c.post["state.pwr_regen_out_max"], c.post["state.pwr_charge_max"] + c.S["aux"]), when="ret"),
        Claim("accepted_discharge_within_rating(+TOL)", lambda c: LT(c.post["state.pwr_out_electrical"], almost_le_bound(c.pre["pwr_out_max"]))),
        Claim("accepted_discharge_within_published_limit(+TOL)", lambda c: LT(c.post["state.pwr_out_electrical"], almost_le_bound(c.post["state.pwr_disch_max"]))),
        Claim("accepted_charge_within_rating(+TOL)", lambda c: IMP(XLT(c.post["state.pwr_out_electrical"], 0), GT(c.post["state.pwr_out_electrical"], almost_ge_bound(-c.pre["pwr_out_max"])))),
        Claim("accepted_charge_within_published_limit(+TOL)", lambda c: IMP(XLT(c.post["state.pwr_out_electrical"], 0), GT(c.post["state.pwr_out_electrical"], almost_ge_bound(-c.post["state.pwr_charge_max"])))),
        Claim("no_panic", None, when="nopanic"),
    ]
    return Case(f"res_limits_{ns}x{nc}", "C09", "ReversibleEnergyStorage", res_tmpl(P, ns, nc),
                [Call("ReversibleEnergyStorage::set_cur_pwr_out_max", [("si::Power", Sym("aux")), ("Option<si::Energy>", None), ("Option<si::Energy>", None)]),
                 Call("ReversibleEnergyStorage::solve_energy_consumption", [("si::Power", Sym("req")), ("si::Power", Sym("aux")), ("si::Time", Sym("dt"))])],
                assume, claims, bounds={"eta grid": f"1 x {ns} x {nc}", "steps": "publish + solve from arbitrary pre-state"},
                stubs={"utils::interp3d": interp3d_contract}, notes=["utils::interp3d replaced by its contract (C08 interp3d_contract_*)"])


def res_soc_window_case(ns, nc):
    """SOC stays inside the configured window (up to the code's own tolerance) when a step is accepted,
    provided one step cannot move the SOC across the whole derating ramp (stated domain bound)."""
    P = "res_"

    def assume(S):
        d = res_domain(S, P, ns, nc) + [("dt > 0", S["dt"] > 0), ("pwr_aux >= 0", S["aux"] >= 0)]
        d.append(("min_soc <= soc <= max_soc before the step", z3.And(S[P + "s_soc"] >= S[P + "min_soc"], S[P + "s_soc"] <= S[P + "max_soc"])))
        d.append(("eta_lo is a lower bound of the efficiency map", z3.And(S["eta_lo"] > 0, *[S[f"{P}v{i}{j}"] >= S["eta_lo"] for i in range(ns) for j in range(nc)])))
        k_lo = S["dt"] * S[P + "pwr_out_max"] * (1 + TOLQ) / (S[P + "energy_capacity"] * S["eta_lo"] * (S[P + "soc_lo_ramp_start"] - S[P + "min_soc"]))
        k_hi = S["dt"] * S[P + "pwr_out_max"] * (1 + TOLQ) / (S[P + "energy_capacity"] * (S[P + "max_soc"] - S[P + "soc_hi_ramp_start"]))
        d.append(("domain bound: dt*pwr_out_max*(1+TOL) <= energy_capacity*eta_lo*(soc_lo_ramp_start-min_soc)  (one step cannot cross the discharge ramp)", k_lo <= 1))
        d.append(("domain bound: dt*pwr_out_max*(1+TOL) <= energy_capacity*(max_soc-soc_hi_ramp_start)  (one step cannot cross the charge ramp)", k_hi <= 1))
        return d

    def slack(c):
        # the code accepts demands up to TOL watts above a limit: that much energy may leave the window
        return tol(c.S["dt"]) * c.S["dt"] / (c.pre["energy_capacity"] * c.S["eta_lo"])

    claims = [
        Claim("soc_not_below_min_soc(-tolerance)", lambda c: GE(c.post["state.soc"], c.pre["min_soc"] - slack(c)), role="soc_window"),
        Claim("soc_not_above_max_soc(+tolerance)", lambda c: LE(c.post["state.soc"], c.pre["max_soc"] + slack(c)), role="soc_window"),
    ]
    return Case(f"res_soc_window_{ns}x{nc}", "C09", "ReversibleEnergyStorage", res_tmpl(P, ns, nc),
                [Call("ReversibleEnergyStorage::set_cur_pwr_out_max", [("si::Power", Sym("aux")), ("Option<si::Energy>", None), ("Option<si::Energy>", None)]),
                 Call("ReversibleEnergyStorage::solve_energy_consumption", [("si::Power", Sym("req")), ("si::Power", Sym("aux")), ("si::Time", Sym("dt"))])],
                assume, claims, bounds={"eta grid": f"1 x {ns} x {nc}"}, extra_syms=("eta_lo",),
                stubs={"utils::interp3d": interp3d_contract}, timeout_ms=120000,
                notes=["utils::interp3d replaced by its contract", "the two domain bounds are part of the claim: without them a single large step from inside the ramp leaves the window (observed, see DESIGN.md)"])


# ---------------------------------------------------------------- locomotives


def conv_loco_case(n):
    P = "loco_type.ConventionalLoco."

    def assume(S):
        return loco_domain(S, "conv", "", n) + [("dt > 0", S["dt"] > 0), ("previous shaft power >= 0", S["fc_s_pwr_brake"] >= 0)]

    claims = [
        Claim("engine_shaft_within_rating(+TOL)", lambda c: LT(c.post[P + "fc.state.pwr_brake"], almost_le_bound(c.pre[P + "fc.pwr_out_max"]))),
        Claim("engine_shaft_within_published_transient_limit(+TOL)", lambda c: LT(c.post[P + "fc.state.pwr_brake"], almost_le_bound(c.post[P + "fc.state.pwr_out_max"]))),
        Claim("engine_transient_limit_within_ramp_of_previous_shaft_power", lambda c: LE(c.post[P + "fc.state.pwr_out_max"],
              MAX(c.pre[P + "fc.state.pwr_brake"] + c.pre[P + "fc.pwr_out_max"] / c.pre[P + "fc.pwr_ramp_lag"] * c.S["dt"], MAX(c.pre[P + "fc.pwr_out_max_init"], c.pre[P + "fc.pwr_out_max"] / 10))), role="ramp_rate"),
        Claim("generator_within_rating", lambda c: LE(c.post[P + "gen.state.pwr_elec_prop_out"] + c.post[P + "gen.state.pwr_elec_aux"], c.pre[P + "gen.pwr_out_max"])),
        Claim("drivetrain_within_rating", lambda c: LE(c.post[P + "edrv.state.pwr_mech_prop_out"], c.pre[P + "edrv.pwr_out_max"])),
        Claim("published_loco_limit_within_drivetrain_rating", lambda c: LE(c.post["state.pwr_out_max"], c.pre[P + "edrv.pwr_out_max"])),
        Claim("published_loco_limit_not_below_-aux", lambda c: GE(c.post["state.pwr_out_max"], -c.post["state.pwr_aux"])),
        Claim("conventional_unit_publishes_no_regen", lambda c: EQ(c.post["state.pwr_regen_max"], 0)),
        Claim("no_panic", None, when="nopanic"),
    ]
    return Case(f"conv_loco_limits_n{n}", "C09", "Locomotive", loco_tmpl("conv", "", n), LOCO_STEP(), assume, claims,
                bounds={"efficiency map points per component": n, "steps": "1 solve_step sequence from an arbitrary pre-state"},
                stubs={"utils::interp1d": interp1d_contract}, max_paths=20000, timeout_ms=60000,
                notes=["utils::interp1d (efficiency maps) replaced by its contract; exact interpolation is covered by the component harnesses"])


def bel_loco_case(n):
    P = "loco_type.BatteryElectricLoco."

    def assume(S):
        return loco_domain(S, "bel", "", n) + [("dt > 0", S["dt"] > 0)]

    claims = [
        Claim("battery_discharge_within_published_limit(+TOL)", lambda c: LT(c.post[P + "res.state.pwr_out_electrical"], almost_le_bound(c.post[P + "res.state.pwr_disch_max"]))),
        Claim("battery_charge_within_published_limit(+TOL)", lambda c: IMP(XLT(c.post[P + "res.state.pwr_out_electrical"], 0), GT(c.post[P + "res.state.pwr_out_electrical"], almost_ge_bound(-c.post[P + "res.state.pwr_charge_max"])))),
        Claim("traction_plus_booked_aux_within_published_discharge_limit(+TOL)", lambda c: IMP(XGT(c.post[P + "edrv.state.pwr_elec_prop_in"], 0),
              LT(c.post[P + "edrv.state.pwr_elec_prop_in"] + c.post["state.pwr_aux"], almost_le_bound(c.post[P + "res.state.pwr_disch_max"]))), role="traction_within_published_battery_limit"),
        Claim("drivetrain_within_rating", lambda c: LE(c.post[P + "edrv.state.pwr_mech_prop_out"], c.pre[P + "edrv.pwr_out_max"])),
        Claim("regen_within_published_regen_limit", lambda c: GE(c.post[P + "edrv.state.pwr_mech_prop_out"], -c.post["state.pwr_regen_max"])),
        Claim("published_loco_limit_within_drivetrain_rating", lambda c: LE(c.post["state.pwr_out_max"], c.pre[P + "edrv.pwr_out_max"])),
        Claim("published_regen_limit_within_drivetrain_rating", lambda c: AND(GE(c.post["state.pwr_regen_max"], 0), LE(c.post["state.pwr_regen_max"], c.pre[P + "edrv.pwr_out_max"]))),
        Claim("published_loco_limit_not_below_-aux", lambda c: GE(c.post["state.pwr_out_max"], -c.post["state.pwr_aux"])),
        Claim("no_panic", None, when="nopanic"),
    ]
    return Case(f"bel_loco_limits_n{n}", "C09", "Locomotive", loco_tmpl("bel", "", n), LOCO_STEP(), assume, claims,
                bounds={"efficiency map points": n, "eta grid": "1x2x2", "steps": "1 solve_step sequence from an arbitrary pre-state"},
                stubs={"utils::interp3d": interp3d_contract, "utils::interp1d": interp1d_contract}, max_paths=20000, timeout_ms=60000,
                notes=["efficiency-map interpolations replaced by their contracts; SOC derating tables are executed exactly"])


def m_cases(tier):
    tier = "thorough"  # the full case list is cheap enough to run on every change (the tiers differ only in validation vectors)
    cs = [fc_limit_case(3), fc_over_limit_rejected(2), gen_case(3), edrv_case(2), res_limit_case(2, 2), res_soc_window_case(2, 2), conv_loco_case(2), bel_loco_case(2)]
    if tier == "thorough":
        cs += [fc_limit_case(4), gen_case(4), edrv_case(3), res_limit_case(3, 2), res_soc_window_case(2, 3), conv_loco_case(3), bel_loco_case(3)]
    return cs
