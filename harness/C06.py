"""C06 — the path geometry handed to the train model equals the network's geometry."""
from traincommon import *  # noqa
from fractions import Fraction as Fr
from values import Opaque, is_z3

LINK = "link_impl::Link"
REV = Fr(6.283185307179586)
DEGQ = Fr(0.017453292519943295)
FT100 = Fr(0.3048) * 100


def link_tmpl(j, nE, nH, nC, idx_prev, idx_prev_alt=0, idx_next=0):
    p = f"k{j}_"
    elevs = [{"offset": (0 if i == 0 else (Sym(p + "len") if i == nE - 1 else Sym(f"{p}eo{i}"))), "elev": Sym(f"{p}e{i}")} for i in range(nE)]
    heads = [{"offset": (0 if i == 0 else (Sym(p + "len") if i == nH - 1 else Sym(f"{p}ho{i}"))), "heading": Sym(f"{p}h{i}"), "lat": None, "lon": None} for i in range(nH)]
    cats = [{"offset_start": Sym(f"{p}cs{i}"), "offset_end": Sym(f"{p}ce{i}"), "power_limit": Sym(f"{p}cp{i}"), "district_id": None} for i in range(nC)]
    return {"idx_curr": j, "idx_flip": 0, "idx_next": idx_next, "idx_next_alt": 0, "idx_prev": idx_prev, "idx_prev_alt": idx_prev_alt, "osm_id": None, "length": Sym(p + "len"),
            "elevs": elevs, "headings": heads, "speed_sets": Raw(Opaque("HashMap"), json={}, has_json=True),
            "speed_set": {"speed_limits": [], "speed_params": [], "is_head_end": False}, "cat_power_limits": cats, "link_idxs_lockout": []}


def dummy_link():
    return {"idx_curr": 0, "idx_flip": 0, "idx_next": 0, "idx_next_alt": 0, "idx_prev": 0, "idx_prev_alt": 0, "osm_id": None, "length": 0, "elevs": [], "headings": [],
            "speed_sets": Raw(Opaque("HashMap"), json={}, has_json=True), "speed_set": None, "cat_power_limits": [], "link_idxs_lockout": []}


def new_path_tpc():
    """PathTpc::new(train_params)"""
    dflt_pt = {"offset": 0, "grade_count": 0, "curve_count": 0, "cat_power_count": 0, "link_idx": 0}
    dflt_c = {"offset": 0, "res_coeff": 0, "res_net": 0}
    return {"link_points": [dflt_pt], "grades": [dict(dflt_c)], "curves": [dict(dflt_c)], "speed_points": [{"offset": 0, "speed_limit": Sym("vmax")}], "cat_power_limits": [],
            "train_params": {"length": Sym("tlen"), "speed_max": Sym("vmax"), "towed_mass_static": 1000, "mass_per_brake": 100, "axle_count": 4, "train_type": "Freight",
                             "curve_coeff_0": Sym("cc0"), "curve_coeff_1": Sym("cc1"), "curve_coeff_2": Sym("cc2")},
            "is_finished": False}


def extend_case(shapes, split, wrap=False, contiguous=True, prop="C06"):
    """shapes: per link (nE, nH, nC); split: list of lists of link indices (1-based) = successive extend calls"""
    n = len(shapes)
    links = [dummy_link()]
    for j, (nE, nH, nC) in enumerate(shapes, start=1):
        prev = j - 1 if contiguous or j == 1 else 0
        links.append(link_tmpl(j, nE, nH, nC, prev, 0, (j + 1 if j < n else 0)))
    if not contiguous:
        links[2]["idx_prev"] = 0 if n < 3 else 3

    def assume(S):
        d = [("speed_max > 0", S["vmax"] > 0), ("train length > 0", S["tlen"] > 0)]
        for j, (nE, nH, nC) in enumerate(shapes, start=1):
            p = f"k{j}_"
            d.append((f"{p}len > 0", S[p + "len"] > 0))
            prev = 0
            for i in range(1, nE - 1):
                d.append((f"elevation offsets strictly increasing inside link {j}", z3.And(S[f"{p}eo{i}"] > prev, S[f"{p}eo{i}"] < S[p + "len"])))
                prev = S[f"{p}eo{i}"]
            prev = 0
            for i in range(1, nH - 1):
                d.append((f"heading offsets strictly increasing inside link {j}", z3.And(S[f"{p}ho{i}"] > prev, S[f"{p}ho{i}"] < S[p + "len"])))
                prev = S[f"{p}ho{i}"]
            for i in range(nH - 1):
                dh = S[f"{p}h{i+1}"] - S[f"{p}h{i}"]
                if wrap:
                    d.append((f"heading change across the +-pi wrap (pi <= delta < 3pi)", z3.And(dh >= z3.RealVal(REV / 2), dh < z3.RealVal(REV * 3 / 2))))
                else:
                    d.append((f"heading change in the principal range (-pi <= delta < pi)", z3.And(dh >= z3.RealVal(-REV / 2), dh < z3.RealVal(REV / 2))))
            for i in range(nC):
                d.append((f"catenary section {i} of link {j} inside the link", z3.And(S[f"{p}cs{i}"] >= 0, S[f"{p}cs{i}"] <= S[f"{p}ce{i}"], S[f"{p}ce{i}"] <= S[p + "len"])))
        return d

    # ------------------------------------------------ oracle: the profile written from the network's own points
    def expected(c):
        S = c.S
        sym = any(is_z3(v) for v in S.values())
        K = (lambda fr: z3.RealVal(fr)) if sym else (lambda fr: float(fr))
        lps, grades, curves, cats = [], [], [], []
        base = 0
        g_net = None
        k_net = 0
        for j, (nE, nH, nC) in enumerate(shapes, start=1):
            p = f"k{j}_"
            L = S[p + "len"]
            eo = lambda i: 0 if i == 0 else (L if i == nE - 1 else S[f"{p}eo{i}"])
            ho = lambda i: 0 if i == 0 else (L if i == nH - 1 else S[f"{p}ho{i}"])
            lps.append((base, max(nE, 2) - 1, max(nH, 2) - 1, nC, j))
            if g_net is None:
                g_net = S[f"{p}e0"] if nE > 0 else 0
            if nE == 0:
                grades.append((base, 0, g_net, L))
            else:
                for i in range(nE - 1):
                    slope = (S[f"{p}e{i+1}"] - S[f"{p}e{i}"]) / (eo(i + 1) - eo(i))
                    grades.append((base + eo(i), slope, g_net, eo(i + 1) - eo(i)))
                    g_net = g_net + S[f"{p}e{i+1}"] - S[f"{p}e{i}"]
            if nH == 0:
                curves.append((base, 0, k_net, L))
            else:
                for i in range(nH - 1):
                    length = ho(i + 1) - ho(i)
                    dh = S[f"{p}h{i+1}"] - S[f"{p}h{i}"]
                    wrapped = dh - K(REV) if wrap else dh
                    curvature = ABS(wrapped) / length
                    one_deg = K(DEGQ / FT100)
                    rc = IF(XLT(curvature, one_deg), S["cc0"] * curvature,
                            S["cc0"] * one_deg + S["cc1"] * (curvature - one_deg) + S["cc2"] * (curvature - one_deg) * (curvature - one_deg))
                    curves.append((base + ho(i), rc, k_net, length))
                    k_net = k_net + rc * length
            for i in range(nC):
                cats.append((base + S[f"{p}cs{i}"], base + S[f"{p}ce{i}"], S[f"{p}cp{i}"]))
            base = base + L
        lps.append((base, 0, 0, 0, 0))
        grades.append((base, 0, g_net, 0))
        curves.append((base, 0, k_net, 0))
        return lps, grades, curves, cats

    def link_points_ok(c):
        lps, _, _, _ = expected(c)
        if c.post["link_points"].len() != len(lps):
            return False
        conds = []
        for i, (off, gc, cc, nc_, idx) in enumerate(lps):
            q = f"link_points.{i}."
            conds += [EQ(c.post[q + "offset"], off), XEQ(c.post[q + "grade_count"], gc), XEQ(c.post[q + "curve_count"], cc), XEQ(c.post[q + "cat_power_count"], nc_), XEQ(c.post[q + "link_idx.idx"], idx)]
        return AND(*conds)

    def n_expected(which):
        # lengths are shape-determined
        if which == 1:
            return sum((max(nE, 2) - 1) for (nE, nH, nC) in shapes) + 1
        return sum((max(nH, 2) - 1) for (nE, nH, nC) in shapes) + 1

    def coeff_claims(field, which, label):
        out = [Claim(f"{label}: number of profile points", lambda c: c.post[field].len() == n_expected(which), role=field)]
        for i in range(n_expected(which)):
            out.append(Claim(f"{label}[{i}].offset = base offset + the point's own offset", lambda c, i=i: EQ(c.post[f"{field}.{i}.offset"], expected(c)[which][i][0]), role=field))
            out.append(Claim(f"{label}[{i}].res_coeff = " + ("slope of the elevation points" if which == 1 else "degree-of-curvature model on the heading-change rate"),
                             lambda c, i=i: EQ(c.post[f"{field}.{i}.res_coeff"], expected(c)[which][i][1]), role=field))
            if i == 0:
                out.append(Claim(f"{label}[0].res_net = " + ("first elevation of the route" if which == 1 else "0"), lambda c: EQ(c.post[f"{field}.0.res_net"], expected(c)[which][0][2]), role=field))
            else:
                out.append(Claim(f"{label}[{i}].res_net = running integral of res_coeff", lambda c, i=i: EQ(
                    c.post[f"{field}.{i}.res_net"] - c.post[f"{field}.{i-1}.res_net"],
                    c.post[f"{field}.{i-1}.res_coeff"] * expected(c)[which][i - 1][3]), role=field))
        return out

    def cats_ok(c):
        exp = expected(c)[3]
        if c.post["cat_power_limits"].len() != len(exp):
            return False
        conds = [True]
        for i, (a, b_, pw) in enumerate(exp):
            q = f"cat_power_limits.{i}."
            conds += [EQ(c.post[q + "offset_start"], a), EQ(c.post[q + "offset_end"], b_), EQ(c.post[q + "power_limit"], pw)]
        return AND(*conds)

    def counts_consistent(c):
        """the cross-checks of ObjState for PathTpc, asserted: prefix sums of the per-link counts index the matching offsets"""
        n_lp = c.post["link_points"].len()
        gi = ci = 0
        conds = [True]
        for i in range(n_lp - 1):
            conds.append(EQ(c.post[f"grades.{gi}.offset"], c.post[f"link_points.{i}.offset"]))
            conds.append(EQ(c.post[f"curves.{ci}.offset"], c.post[f"link_points.{i}.offset"]))
            gi += c.post[f"link_points.{i}.grade_count"]
            ci += c.post[f"link_points.{i}.curve_count"]
        conds.append(XEQ(gi, c.post["grades"].len() - 1))
        conds.append(XEQ(ci, c.post["curves"].len() - 1))
        return AND(*conds)

    calls = [Call("PathTpc::extend", [("&Vec<link_impl::Link>", links), ("&Vec<LinkIdx>", part)]) for part in split]
    tag = "+".join("".join(str(x) for x in part) for part in split)
    shp = "_".join(f"{a}{b}{c_}" for (a, b, c_) in shapes)
    if contiguous:
        claims = [
            Claim("segment boundaries at the cumulative segment lengths, per-link counts and link ids", link_points_ok, role="link_points"),
            *coeff_claims("grades", 1, "grades"),
            *coeff_claims("curves", 2, "curves"),
            Claim("catenary limits shifted by the segment's base offset", cats_ok, role="cat_power"),
            Claim("index counts mutually consistent (prefix sums index the matching offsets)", counts_consistent, role="counts"),
            Claim("a contiguous route is accepted", lambda c: False, when="err"),
            Claim("no_panic", None, when="nopanic"),
        ]
    else:
        claims = [Claim("a non-contiguous route is rejected with an error", lambda c: False, when="ok", role="non_contiguous_rejected"), Claim("no_panic", None, when="nopanic")]
    if prop == "C07":
        # what the resistance model (C07) relies on: cumulative elevation and cumulative curve resistance are the running integrals of the track's coefficients
        claims = [*coeff_claims("grades", 1, "grades"), *coeff_claims("curves", 2, "curves"), Claim("no_panic", None, when="nopanic")]
    return Case(f"extend_{shp}_{tag}_{'wrap' if wrap else 'nowrap'}_{'contig' if contiguous else 'broken'}", prop, "PathTpc", new_path_tpc(), calls, assume, claims,
                bounds={"links": n, "points per link (elevs, headings, catenary)": shapes, "extend calls": split, "heading wrap-around": wrap},
                expect_ok=contiguous, max_paths=20000, timeout_ms=60000, check_side=True,
                notes=["one-call and link-by-link builds are checked against the same full functional specification, hence against each other"])


def m_cases(tier):
    cs = [extend_case([(2, 2, 1), (3, 0, 0)], [[1, 2]]), extend_case([(2, 2, 1), (3, 0, 0)], [[1], [2]]),
          extend_case([(3, 2, 0), (2, 2, 1)], [[1, 2]]), extend_case([(3, 2, 0), (2, 2, 1)], [[1], [2]]), extend_case([(2, 3, 1)], [[1]]),
          extend_case([(2, 2, 0)], [[1]], wrap=True),
          extend_case([(2, 0, 0), (2, 0, 0)], [[1, 2]], contiguous=False), extend_case([(2, 0, 0), (2, 0, 0)], [[1], [2]], contiguous=False)]
    if tier == "thorough":
        cs += [extend_case([(2, 2, 1), (3, 2, 1), (2, 0, 0)], [[1, 2, 3]]), extend_case([(2, 2, 1), (3, 2, 1), (2, 0, 0)], [[1], [2, 3]]), extend_case([(2, 2, 1), (3, 2, 1), (2, 0, 0)], [[1, 2], [3]]),
               extend_case([(2, 2, 1), (3, 2, 1), (2, 0, 0)], [[1], [2], [3]]), extend_case([(4, 3, 2)], [[1]]), extend_case([(2, 2, 0), (2, 2, 0)], [[1, 2]], wrap=True),
               extend_case([(2, 0, 0), (2, 0, 0), (2, 0, 0)], [[1, 2], [3]], contiguous=False)]
    return cs
