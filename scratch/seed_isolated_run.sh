#!/bin/bash
# seedrun.sh <patch> <PID>...  : isolated copy run
export NREL_ALTRIOS_VERIF_DIR=/tmp/iso/verif NREL_ALTRIOS_REPO=/tmp/iso/repo
patch=$1; shift
cd /tmp/iso/repo && git checkout -q -- . && git apply "$patch" || { echo "patch failed"; exit 9; }
for p in "$@"; do
  (cd /tmp/iso/verif && bin/check $p quick 2>&1 | grep -E "^VIOLATION|^KNOWN|^NOT-REPRO|^INCONCLUSIVE|^check " | cut -c1-300)
done
cd /tmp/iso/repo && git checkout -q -- .
