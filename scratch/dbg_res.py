import sys
sys.path.insert(0,'/verif/mir2smt'); sys.path.insert(0,'/verif/harness')
import mir as mirmod, schema as schemamod, cases as casesmod
from hlib import *
from tmpl import Builder
import C08
m = mirmod.load(); sc = schemamod.SrcSchema(); sc.reconcile(m.struct_fields)
case = C08.m_cases('quick')[3]
h = Harness(m, 'x', 'C08'); b = Builder(h, sc)
recv = b.value(case.recv_ty, case.recv); args=[b.value(t,v) for t,v in case.calls[0].args]
for t,c in case.assume(dict(h.syms)): h.assume(c,t)
st=h.new_state(); p=h.put(st,recv)
outs=h.run(case.calls[0].fn, st, [p]+args)
for o in outs:
    print(o.kind, o.val, len(o.st.pc))
    if o.kind=='panic':
        for c in o.st.pc: print('   ', z3.simplify(c).sexpr()[:600])
        ok,mm=h.reachable(o); print(ok)
