import sys, time
sys.path.insert(0,'/verif/mir2smt')
from hlib import *
m = mirmod.load()
print(m.struct_fields['FuelConverter'], m.struct_fields['FuelConverterState'])
h = Harness(m, 'fc_step', 'C01')
R=h.real
st = h.new_state()
state = h.struct('FuelConverterState', i=1, pwr_out_max=R('s_pwr_out_max'), eta=R('s_eta'), pwr_brake=R('s_pwr_brake'), pwr_fuel=R('s_pwr_fuel'),
   pwr_loss=R('s_pwr_loss'), pwr_idle_fuel=R('s_idle'), energy_brake=R('e_brake'), energy_fuel=R('e_fuel'), energy_loss=R('e_loss'), energy_idle_fuel=R('e_idle'), engine_on=h.bool('s_engine_on'))
x1=R('x1'); 
fc = h.struct('FuelConverter', state=state, mass=NONE, specific_pwr=NONE, pwr_out_max=R('pmax'), pwr_out_max_init=R('pinit'), pwr_ramp_lag=R('lag'),
   pwr_out_frac_interp=Seq([Fraction(0), x1, Fraction(1)]), eta_interp=Seq([R('y0'),R('y1'),R('y2')]), pwr_idle_fuel=R('idle'), save_interval=NONE, history=UNINIT)
for y in ('y0','y1','y2'): h.assume(z3.And(R(y)>0, R(y)<=1))
h.assume(z3.And(x1>0,x1<1)); h.assume(R('pmax')>0); h.assume(R('idle')>=0); h.assume(R('dt')>0)
h.assume(R('e_loss')>=0)
p = h.put(st, fc)
t=time.time()
outs = h.run('FuelConverter::solve_energy_consumption', st, [p, R('req'), R('dt'), h.bool('engine_on'), True])
print(len(outs),'outcomes', round(time.time()-t,2),'s')
for o in outs:
    print(o.kind, o.val, len(o.st.pc), len(o.st.events))
    if is_ok(o):
        f = h.deref(o.st, p)
        g = lambda n: h.get(f, n)
        print(h.prove(o, g('state.pwr_fuel') == g('state.pwr_brake') + g('state.pwr_loss'), 'balance')['status'])
        print(h.prove(o, g('state.energy_fuel') == R('e_fuel') + g('state.pwr_fuel')*R('dt'), 'acc fuel')['status'])
        print(h.prove(o, g('state.pwr_loss') >= 0, 'loss>=0')['status'])
        r=h.prove(o, Implies(z3.Not(h.bool('engine_on')), g('state.pwr_fuel') == 0), 'engine off no fuel'); print(r['status'], r.get('model'))
        print([ (e[0],e[2]) for e in o.st.events])
        print([r['status'] for r in h.check_events(o)])
print(h.summary())
