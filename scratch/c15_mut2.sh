#!/bin/bash
f=/repo/rust/altrios-core/src/meet_pass/est_times/mod.rs
python3 - "$f" "$1" "$2" <<'PY'
import sys
f,old,new=sys.argv[1:4]
s=open(f).read()
assert s.count(old)>=1, "pattern not found"
s=s.replace(old,new,1); open(f,'w').write(s)
PY
[ $? -eq 0 ] || exit 1
cd /verif && bin/check C15 quick 2>&1 | grep -E "^VIOLATION|^check|^INCONCL|^NOT-REPRO" | cut -c1-200
git -C /repo checkout -- .
