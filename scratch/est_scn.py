import json, subprocess, sys
def run(req):
    p = subprocess.run(['/verif/build/target-runner/debug/verif-runner'], input=json.dumps(req)+"\n", capture_output=True, text=True)
    return json.loads(p.stdout.splitlines()[0])
L=lambda prev=0,prev_alt=0,next=0,next_alt=0,length=4000,speed=20: dict(prev=prev,prev_alt=prev_alt,next=next,next_alt=next_alt,length=length,speed=speed,flip=0)
SCN={
 'chain2': dict(links=[L(next=2),L(prev=1)],origs=[1],dests=[2]),
 'siding': dict(links=[L(next=2,next_alt=3),L(prev=1,next=4),L(prev=1,next=4,speed=10),L(prev=2,prev_alt=3)],origs=[1],dests=[4]),
 'siding_same': dict(links=[L(next=2,next_alt=3),L(prev=1,next=4),L(prev=1,next=4),L(prev=2,prev_alt=3)],origs=[1],dests=[4]),
 'two_origs': dict(links=[L(next=3),L(next=3),L(prev=1,prev_alt=2)],origs=[1,2],dests=[3]),
}
for name,d in SCN.items():
    d['t0']=0
    r=run({'recv_ty':'W_EstScenario','recv':d,'calls':[{'fn':'scenario','args':[]}]})
    print(name, r['kind'], r.get('msg','')[:300], 'valid:',r.get('network_valid'))
    if r.get('pre'):
        for i,e in enumerate(r['pre']):
            print('  ',i, e['link_event']['est_type'][0], e['link_event']['link_idx'], 'n',e['idx_next'],'na',e['idx_next_alt'],'p',e['idx_prev'],'pa',e['idx_prev_alt'],'ttn',round(e['time_to_next'],2) if isinstance(e['time_to_next'],float) else e['time_to_next'])
    if r.get('post'):
        print('  post:', [(e['idx_next'],e['idx_prev'],round(e['time_sched'],1) if isinstance(e['time_sched'],(int,float)) else e['time_sched']) for e in r['post']])
