"""replay one translator-validation vector: tv_one.py <PID> <tier> <case name> '<json model>'"""
import sys, json, importlib
sys.path.insert(0,'/verif/mir2smt'); sys.path.insert(0,'/verif/harness')
import mir as mirmod, schema as schemamod, cases as casesmod, validate
pid, tier, name, model = sys.argv[1], sys.argv[2], sys.argv[3], json.loads(sys.argv[4])
m = mirmod.load()
mod = importlib.import_module(pid)
sc = getattr(mod, 'SC', None) or schemamod.SrcSchema(); sc.reconcile(m.struct_fields)
case = [c for c in mod.m_cases(tier) if c.name == name][0]
native = casesmod.Native('/verif/build/target-runner/debug/verif-runner')
r = validate.validate_case(case, m, sc, native, 1, 0, models=[model])
print(json.dumps(r, indent=1, default=str)[:3000])
