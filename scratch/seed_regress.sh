#!/bin/bash
# seed_regress.sh [ids...]: for every seeded change, apply it, run the quick check of its property (and the checks named in meta.detection), undo; report detected / missed
cd /verif
ids="$@"; [ -z "$ids" ] && ids=$(ls seeded)
for id in $ids; do
  pid=${id%%-*}
  cd /repo && git status --short | grep -q . && { echo "/repo dirty"; exit 9; }
  git -C /repo apply /verif/seeded/$id/patch.diff || { echo "$id: patch does not apply"; continue; }
  out=$(cd /verif && bin/check $pid quick 2>&1); rc=$?
  git -C /repo checkout -- .
  nv=$(echo "$out" | grep -c "^VIOLATION")
  echo "$id rc=$rc violations=$nv $(echo "$out" | grep -E '^check ' | cut -c1-120)"
done
cd /verif && bin/setup > /dev/null 2>&1
