import sys, json, subprocess
sys.path.insert(0,'/verif/mir2smt'); sys.path.insert(0,'/verif/harness'); sys.path.insert(0,'/verif/bin')
import mir as mirmod, schema as schemamod, cases as casesmod, C03
from hlib import Harness
from tmpl import Builder
m = mirmod.load(); sc = C03.SC; sc.reconcile(m.struct_fields)
case = C03.bounded_run_case(3)
h = Harness(m, case.name, case.prop); b = Builder(h, sc)
model = {"sl0": 1.0, "ts_offset": 9997.5, "ts_speed": 1.0}
class D(dict):
    def __contains__(self,k): return True
    def __missing__(self,k): return 0.0
recv = b.json("SpeedLimitTrainSim", case.recv, D(model))
print(json.dumps(recv["fric_brake"]), recv["state"]["mass_static"], recv["state"]["dt"], recv["state"].get("mass_rot"))
for n in range(1, len(case.calls)+1):
    calls=[{"fn": c.fn, "recv_path": c.recv_path, "args": [b.json(ty.lstrip("&").strip(), t, D(model)) for (ty,t) in c.args]} for c in case.calls[:n]]
    req={"recv_ty":"SpeedLimitTrainSim","recv":recv,"calls":calls}
    p=subprocess.run(['/verif/build/target-runner/debug/verif-runner'],input=json.dumps(req)+"\n",capture_output=True,text=True)
    r=json.loads(p.stdout.splitlines()[0]); st=(r.get('recv') or {}).get('state',{})
    print(n, case.calls[n-1].fn, r['kind'], r.get('msg','')[:100], 'off',st.get('offset'),'v',st.get('speed'),'lim',st.get('speed_limit'),'tgt',st.get('speed_target'),'fb',(r.get('recv') or {}).get('fric_brake',{}).get('state'))
