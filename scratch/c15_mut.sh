#!/bin/bash
# c15_mut.sh '<python expr replacing text in update_times.rs>' : apply, run C15 cases, revert
f=/repo/rust/altrios-core/src/meet_pass/est_times/$1
python3 - "$f" "$2" "$3" <<'PY'
import sys
f,old,new=sys.argv[1:4]
s=open(f).read()
assert s.count(old)>=1, "pattern not found"
s=s.replace(old,new,1); open(f,'w').write(s)
PY
[ $? -eq 0 ] || exit 1
git -C /repo diff --stat | tail -1
cd /verif && bin/setup > /tmp/c15mut_setup.log 2>&1 || tail -5 /tmp/c15mut_setup.log
for i in $(seq 0 ${4:-5}); do timeout 900 python3-vt scratch/run1.py C15 $i quick 2>&1 | grep -E "\"status|\"harness\": |violated|inconcl|Unsupp|\"claim\"|reproduced" | sort | uniq -c | head -12; done
git -C /repo checkout -- . ; cd /verif && bin/setup >/dev/null 2>&1
