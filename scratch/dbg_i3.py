import sys
sys.path.insert(0,'/verif/mir2smt')
from hlib import *
m = mirmod.load()
h = Harness(m, 'x', 'C08')
R=h.real
st=h.new_state()
q=h.put(st, R('q')); ax=h.put(st, Seq([R('a0'),R('a1')]))
h.assume(R('a0')<R('a1'))
h.eng.trace = True
outs=h.run('find_interp_indices', st, [q, ax])
for o in outs:
    print(o.kind, o.val, len(o.st.pc), h.reachable(o)[0])
    for c in o.st.pc: print('   ', z3.simplify(c).sexpr()[:800])
