import sys
sys.path.insert(0,'/verif/mir2smt')
from hlib import *
m = mirmod.load()
h = Harness(m, 'x', 'C08')
R=h.real
st=h.new_state()
pt=h.put(st, Seq([R('t'),R('s'),R('c')]))
grid=h.put(st, Seq([Seq([R('gt0')]), Seq([R('gs0'),R('gs1')]), Seq([R('gc0'),R('gc1')])]))
vals=h.put(st, Seq([Seq([Seq([R('v00'),R('v01')]),Seq([R('v10'),R('v11')])])]))
h.assume(R('gs0')<R('gs1')); h.assume(R('gc0')<R('gc1'))
import time; t=time.time()
outs=h.run('utils::interp3d', st, [pt, grid, vals])
print(time.time()-t, h.eng.stats['paths'], h.eng.stats['feas_queries'])
for o in outs:
    print(o.kind, str(o.val)[:100], len(o.st.pc), h.reachable(o)[0])
    if o.kind!='ret' or o.val.variant==1:
        for c in o.st.pc: print('   ', z3.simplify(c).sexpr()[:1500])
