import sys, os, time, json
sys.path.insert(0,'/verif/mir2smt'); sys.path.insert(0,'/verif/harness'); sys.path.insert(0,'/verif/bin')
import mir as mirmod, schema as schemamod, cases as casesmod, importlib
pid, expr = sys.argv[1], sys.argv[2]
mod = importlib.import_module(pid)
m = mirmod.load(); sc = getattr(mod,'SC',None) or schemamod.SrcSchema(); sc.reconcile(m.struct_fields)
case = eval("mod."+expr)
native = casesmod.Native('/verif/build/target-runner/debug/verif-runner')
res = casesmod.run_case(case, m, sc, native=native)
for v in res['violations'][:6]:
    mdl=v.get('model') or {}
    print(v['claim'], {k:mdl[k] for k in mdl if mdl[k] not in (0,0.0)}, v['replay'].get('reproduced'))
    np_=v['replay'].get('native_post') or {}
    st=(np_.get('state') or {})
    print('   native post: offset',st.get('offset'),'speed',st.get('speed'),'limit',st.get('speed_limit'),'target',st.get('speed_target'), 'bp', (np_.get('braking_points') or {}).get('points'))
