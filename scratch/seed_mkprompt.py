import json,sys,os,glob
pid, tag = sys.argv[1], sys.argv[2]
props={json.loads(l)['id']:json.loads(l) for l in open('/verif/properties.jsonl')}
p=props[pid]
wt=f"/tmp/wt{tag}_{pid}"; sd=f"/tmp/seed{tag}_{pid}"
prev=[]
for d in sorted(glob.glob(f'/verif/seeded/{pid}-*')):
    try:
        m=json.load(open(d+'/meta.json')); prev.append('- '+m.get('summary','')[:400].replace('\n',' '))
    except Exception as e: pass
t=open('/verif/scratch/PROMPT_TEMPLATE_C08.txt').read()
t=t.replace('/tmp/wt_C08',wt).replace('/tmp/seed_C08',sd).replace('"C08"',f'"{pid}"')
# replace property text
a=t.index('TITLE:'); b=t.index('Your task:')
t=t[:a]+f"TITLE: {p['title']}\n\nSTATEMENT: {p['statement']}\n\nQUANTIFIED OVER: {p['quantifier']['text']}\n\n"+t[b:]
if prev:
    t+="\n\nEarlier rounds already produced the following changes for this property; yours must be DIFFERENT in kind (a different function / mechanism / clause of the property), not a variation of one of these:\n"+"\n".join(prev)
t+="\n\nAnchors (files where the mechanisms behind this property live): "+", ".join(p['anchors']['files'])
open(f'/tmp/seedwork/prompt_{tag}_{pid}.txt','w').write(t)
print(wt,sd)
