"""viol.py <PID> <tier> <case name>: run one case, print violations compactly (with native error/panic message)"""
import sys, json
sys.path.insert(0,'/verif/mir2smt'); sys.path.insert(0,'/verif/harness')
import mir as mirmod, cases as casesmod, importlib
pid, tier, name = sys.argv[1:4]
mod=importlib.import_module(pid); m=mirmod.load(); sc=getattr(mod,'SC'); sc.reconcile(m.struct_fields)
case=[c for c in mod.m_cases(tier) if c.name==name][0]
nat=casesmod.Native('/verif/build/target-runner/debug/verif-runner')
res=casesmod.run_case(case,m,sc,native=nat)
print(res['status'], res.get('outcome_kinds'), res['inconclusive'], res['summary']['paths'], res['summary']['wall_s'])
seen=set()
for v in res['violations']:
    if v['claim'] in seen: continue
    seen.add(v['claim'])
    rp=v['replay']
    print('--', v['claim'], 'reproduced=',rp.get('reproduced'), rp.get('native_panic') or rp.get('error') or rp.get('note') or '')
    print('   ', {k:x for k,x in v['model'].items() if x not in (0,0.0)})
    if '--post' in sys.argv:
        r=nat.call(rp['request']); print('   native:', json.dumps(r.get('recv',{}).get(sys.argv[sys.argv.index('--post')+1]) if isinstance(r.get('recv'),dict) else r)[:1500], r.get('msg'))
print({k: res['summary'][k] for k in ('solver_time_s','feasibility_queries','feasibility_unknown','feasibility_assumed_without_query','feasibility_time_s','paths','merges','wall_s')})
for o in res['obligations']:
    if o['time_s']>1: print('  slow:', o['name'][:80], o['status'], o['time_s'])
import engine as _e
if _e.DEBUG_FORKS:
    for k,v in sorted(_e.DEBUG_FORKS.items(), key=lambda kv:-kv[1])[:25]: print(v, k)
