import sys, os, time, json
sys.path.insert(0,'/verif/mir2smt'); sys.path.insert(0,'/verif/harness'); sys.path.insert(0,'/verif/bin')
import mir as mirmod, schema as schemamod, cases as casesmod, validate
import importlib
pid, idx = sys.argv[1], int(sys.argv[2]); tier = sys.argv[3] if len(sys.argv)>3 and not sys.argv[3].startswith('--') else 'quick'
mod = importlib.import_module(pid)
m = mirmod.load(); sc = getattr(mod,'SC',None) or schemamod.SrcSchema(); sc.reconcile(m.struct_fields)
case = mod.m_cases(tier)[idx]
native = casesmod.Native('/verif/build/target-runner/debug/verif-runner') if '--nonative' not in sys.argv else None
t=time.time()
res = casesmod.run_case(case, m, sc, native=native)
print('run_case', round(time.time()-t,2))
r2 = {k:v for k,v in res.items() if k not in ('obligations','functions')}
for v in r2.get('violations',[]): 
    if 'replay' in v: v['replay'].pop('request',None); v['replay'].pop('native_post',None)
print(json.dumps(r2, indent=1, default=repr)[:6000])
for o in res["obligations"]: print(o["name"], o["status"], o["time_s"], o.get("stage",""))
if native and '--tv' in sys.argv:
    t=time.time(); print(json.dumps(validate.validate_case(case, m, sc, native, 4, 0), indent=1, default=repr)[:3000]); print('tv', round(time.time()-t,2))
