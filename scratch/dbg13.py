import sys, json
sys.path.insert(0,'/verif/mir2smt'); sys.path.insert(0,'/verif/harness')
import mir as mirmod, schema as schemamod, cases as casesmod
from hlib import *
from tmpl import Builder
import C13
m = mirmod.load(); sc = schemamod.SrcSchema(); sc.reconcile(m.struct_fields)
case = C13.m_cases('quick')[1]
h = Harness(m, 'x', 'C13'); b = Builder(h, sc)
recv = b.value(case.recv_ty, case.recv); st=h.new_state()
args=[h.put(st,b.value(t.lstrip('&'),v)) for t,v in case.calls[0].args]
h.real('x')
for t,c in case.assume(dict(h.syms)): h.assume(c,t)
p=h.put(st,recv)
outs=h.run(case.calls[0].fn, st, [p]+args)
model=json.loads(sys.argv[1])
sub=[(h.syms[k], z3.RealVal(Fraction(v))) for k,v in model.items()]
for o in outs:
    pcv=[z3.simplify(z3.substitute(to_z3(c),*sub)) for c in o.st.pc]
    post=h.deref(o.st,p)
    print(o.kind, 'pc:', pcv, 'len', len(post.elems))
    if all(z3.is_true(x) for x in pcv):
        for e in post.elems: print('   ', [z3.simplify(z3.substitute(to_z3(f),*sub)) for f in e.fields])
        for c in o.st.pc: print('   PC', c)
