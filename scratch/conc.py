import sys, json
sys.path.insert(0,'/verif/mir2smt'); sys.path.insert(0,'/verif/harness')
import mir as mirmod, schema as schemamod, cases as casesmod, validate
from hlib import *
import importlib
pid, idx, model = sys.argv[1], int(sys.argv[2]), json.loads(sys.argv[3])
m = mirmod.load(); sc = schemamod.SrcSchema(); sc.reconcile(m.struct_fields)
mod = importlib.import_module(pid); case = mod.m_cases('quick')[idx]; sc = getattr(mod,'SC',sc); sc.reconcile(m.struct_fields)
h = Harness(m, 'c', pid, mode='float'); b = validate.FloatBuilder(h, sc, model)
recv = b.value(case.recv_ty, case.recv); st=h.new_state()
args=[h.put(st,b.value(t.lstrip('&'),v)) if t.startswith('&') else b.value(t,v) for t,v in case.calls[0].args]
p=h.put(st,recv)
h.eng.trace = '--trace' in sys.argv
outs=h.run(case.calls[0].fn, st, [p]+args)
for o in outs: print(o.kind, o.val, h.deref(o.st,p))
native = casesmod.Native('/verif/build/target-runner/debug/verif-runner')
b2=casesmod.Builder(h, sc)
req={"recv_ty":case.recv_ty,"recv":b2.json(case.recv_ty,case.recv,model),"calls":[{"fn":case.calls[0].fn,"args":[b2.json(t.lstrip('&'),v,model) for t,v in case.calls[0].args]}]}
print(json.dumps(native.call(req))[:600])
