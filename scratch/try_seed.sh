#!/bin/bash
# try_seed.sh <patch.diff> <tier> <PID>... : apply a seeded change to /repo, run the checks, undo it
set -u
patch=$1; tier=$2; shift 2
cd /repo && git status --short | grep -q . && { echo "/repo dirty"; exit 9; }
git -C /repo apply "$patch" || exit 9
for p in "$@"; do
  (cd /verif && bin/check $p $tier 2>&1 | grep -E "^VIOLATION|^KNOWN|^NOT-REPRO|^INCONCLUSIVE|^check " | cut -c1-260)
done
git -C /repo checkout -- . && (cd /verif && bin/setup >/dev/null 2>&1)
git -C /repo status --short | head -3
