#!/bin/bash
# mkwt.sh <PID> <tag>
pid=$1; tag=$2
wt=/tmp/wt${tag}_${pid}; sd=/tmp/seed${tag}_${pid}
git -C /repo worktree add --detach $wt HEAD >/dev/null 2>&1 || exit 1
mkdir -p $sd
cp -al /repo/rust/target $wt/rust/target
python3 /verif/scratch/seed_mkprompt.py $pid $tag
