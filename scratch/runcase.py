import sys, os, time, json
sys.path.insert(0,'/verif/mir2smt'); sys.path.insert(0,'/verif/harness'); sys.path.insert(0,'/verif/bin')
import mir as mirmod, schema as schemamod, cases as casesmod, importlib
pid, expr = sys.argv[1], sys.argv[2]
mod = importlib.import_module(pid)
m = mirmod.load(); sc = getattr(mod,'SC',None) or schemamod.SrcSchema(); sc.reconcile(m.struct_fields)
case = eval("mod."+expr)
native = casesmod.Native('/verif/build/target-runner/debug/verif-runner') if '--nonative' not in sys.argv else None
t=time.time(); res = casesmod.run_case(case, m, sc, native=native); print('run_case', round(time.time()-t,2))
print(res['status'], res['inconclusive'][:3], json.dumps(res.get('summary'))[:400])
for v in res['violations'][:4]: print(v['claim'], json.dumps(v.get('model'))[:500], json.dumps({k:v['replay'].get(k) for k in ('response_kind','reproduced','error','step')}) if v.get('replay') else None)
for o in res['obligations']: print(o['name'], o['status'], o['time_s'])
