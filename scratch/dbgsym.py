import sys, json, traceback
sys.path.insert(0,'/verif/mir2smt'); sys.path.insert(0,'/verif/harness')
import mir as mirmod, schema as schemamod, cases as casesmod
from hlib import *
from tmpl import Builder
import importlib
pid, idx = sys.argv[1], int(sys.argv[2])
mod = importlib.import_module(pid); case = mod.m_cases('quick')[idx]
m = mirmod.load(); sc = getattr(mod,'SC',None) or schemamod.SrcSchema(); sc.reconcile(m.struct_fields)
h = Harness(m, 'x', pid); b = Builder(h, sc)
recv = b.value(case.recv_ty, case.recv); st=h.new_state()
args=[h.put(st,b.value(t.lstrip('&'),v)) if t.startswith('&') else b.value(t,v) for t,v in case.calls[0].args]
if case.assume:
    for t,c in case.assume(dict(h.syms)): h.assume(c,t)
p=h.put(st,recv)
h.eng.trace='--trace' in sys.argv
try:
    outs=h.run(case.calls[0].fn, st, [p]+args)
    for o in outs: print(o.kind, str(o.val)[:100], len(o.st.pc))
except Exception as e:
    traceback.print_exc()
