// stdin: one JSON request per line; stdout: one JSON response per line.
use std::io::{self, BufRead, Write};
fn main() {
    std::panic::set_hook(Box::new(|_| {}));
    let stdin = io::stdin();
    let mut out = io::stdout();
    for line in stdin.lock().lines() {
        let line = match line { Ok(l) => l, Err(_) => break };
        if line.trim().is_empty() { continue; }
        let resp = altrios_core::verif_hook::runner::dispatch(&line);
        let _ = writeln!(out, "{}", resp);
        let _ = out.flush();
    }
}
