// hook for meet_pass/train_disp/free_path.rs (child module: `use super::*;` reaches the file's private items)
