// hook for meet_pass/train_disp/free_path.rs: Kani proof harnesses for the unsafe sentinel searches (private fns).
#[cfg(kani)]
mod kani_harness {
    use super::super::*;
    use std::num::NonZeroU16;

    const N: usize = 5;

    fn stub_format(_args: core::fmt::Arguments<'_>) -> String {
        String::new()
    }

    fn any_vec_trains(len: usize) -> Vec<TrainIdx> {
        let mut v: Vec<TrainIdx> = Vec::with_capacity(N + N + 2);
        let mut i = 0;
        while i < len {
            v.push(kani::any());
            i += 1;
        }
        v
    }

    /// calc_idx_sentinels: div_idx < len, last node carries the sentinel train and a disp_node_idx different from every
    /// other node's (the shape TrainDisp::new / update_free_path maintain): never reads outside div_nodes, result within bounds.
    #[kani::proof]
    #[kani::unwind(7)]
    #[kani::stub(alloc::fmt::format, stub_format)]
    fn c05_calc_idx_sentinels() {
        let len: usize = kani::any();
        kani::assume(len >= 1 && len <= N);
        let mut nodes: Vec<DivergeNode> = Vec::with_capacity(N);
        let mut i = 0;
        while i < len {
            nodes.push(DivergeNode { train_idx: kani::any(), disp_node_idx: kani::any() });
            i += 1;
        }
        let sentinel: TrainIdx = kani::any();
        kani::assume(nodes[len - 1].train_idx == sentinel);
        let mut j = 0;
        while j + 1 < len {
            kani::assume(nodes[j].disp_node_idx != nodes[len - 1].disp_node_idx);
            j += 1;
        }
        let div_idx: usize = kani::any();
        kani::assume(div_idx < len);
        let (_node, split) = calc_idx_sentinels(div_idx, sentinel, &nodes);
        assert!(split <= len);
        assert!(split > div_idx);
        kani::cover!(split < len && div_idx + 1 < split);
    }

    fn path_and_blocked(len: usize, nblocked: usize) -> (Vec<LinkIdx>, Vec<TrainIdx>) {
        let mut path: Vec<LinkIdx> = Vec::with_capacity(N);
        let mut i = 0;
        while i < len {
            let l: u32 = kani::any();
            kani::assume((l as usize) < nblocked);
            path.push(LinkIdx::new(l));
            i += 1;
        }
        let mut blocked: Vec<TrainIdx> = Vec::with_capacity(N);
        let mut k = 0;
        while k < nblocked {
            blocked.push(kani::any());
            k += 1;
        }
        (path, blocked)
    }

    /// find_train_intersect, Single variant: stays inside link_idx_path, restores the overwritten sentinel slot,
    /// result in [idx_split, max(idx_split, idx_sentinel)]
    #[kani::proof]
    #[kani::unwind(7)]
    #[kani::stub(alloc::fmt::format, stub_format)]
    fn c05_find_train_intersect_single() {
        let len: usize = kani::any();
        kani::assume(len >= 1 && len <= N);
        let (mut path, blocked) = path_and_blocked(len, N);
        let before = path.clone();
        let idx_split: usize = kani::any();
        let idx_sentinel: usize = kani::any();
        kani::assume(idx_split <= len && idx_sentinel < len);
        let chk: u32 = kani::any();
        kani::assume((chk as usize) < N);
        let lot = LinkOptType::Single(LinkIdx::new(chk));
        let r = find_train_intersect(idx_split, idx_sentinel, &lot, &mut path, &blocked);
        assert!(r >= idx_split);
        assert!(r <= idx_split.max(idx_sentinel));
        let mut i = 0;
        while i < len {
            assert!(path[i] == before[i]);
            i += 1;
        }
        kani::cover!(idx_split < idx_sentinel && r < idx_sentinel);
    }

    #[kani::proof]
    #[kani::unwind(7)]
    #[kani::stub(alloc::fmt::format, stub_format)]
    fn c05_find_train_intersect_range() {
        let len: usize = kani::any();
        kani::assume(len >= 1 && len <= N);
        let (mut path, blocked) = path_and_blocked(len, N);
        let before = path.clone();
        let idx_split: usize = kani::any();
        let idx_sentinel: usize = kani::any();
        kani::assume(idx_split <= len && idx_sentinel < len);
        let lo: usize = kani::any();
        let diff: usize = kani::any();
        kani::assume(lo < N && diff <= 16);
        let lot = LinkOptType::Range(lo, diff);
        let r = find_train_intersect(idx_split, idx_sentinel, &lot, &mut path, &blocked);
        assert!(r >= idx_split);
        assert!(r <= idx_split.max(idx_sentinel));
        let mut i = 0;
        while i < len {
            assert!(path[i] == before[i]);
            i += 1;
        }
        kani::cover!(idx_split < idx_sentinel && r < idx_sentinel);
    }

    #[kani::proof]
    #[kani::unwind(7)]
    #[kani::stub(alloc::fmt::format, stub_format)]
    fn c05_find_train_intersect_check() {
        let len: usize = kani::any();
        kani::assume(len >= 1 && len <= N);
        let (mut path, blocked) = path_and_blocked(len, N);
        let idx_split: usize = kani::any();
        let idx_sentinel: usize = kani::any();
        kani::assume(idx_split <= len && idx_sentinel < len);
        let r = find_train_intersect(idx_split, idx_sentinel, &LinkOptType::Check, &mut path, &blocked);
        assert!(r >= idx_split);
        assert!(r <= idx_split.max(idx_sentinel));
        kani::cover!(idx_split < idx_sentinel && r < idx_sentinel);
    }

    /// add_blocking_trains: base view positioned at the end of trains_blocking; every train of the add view is present in
    /// the result view, which starts where the base view starts and ends at the new end of the vector.
    /// Vector length and the add view are concrete per call (a symbolic `reserve` amount makes CBMC model a realloc of
    /// symbolic size and run out of memory); the vector contents and the start of the base view are symbolic.
    fn abt_body(len: usize, a0: u32, a1: u32) {
        let mut tb = any_vec_trains(len);
        let b0: u32 = kani::any();
        kani::assume((b0 as usize) <= len);
        let base = TrainIdxsView::new(b0, len as u32);
        let add = TrainIdxsView::new(a0, a1);
        let before_len = tb.len();
        let view = add_blocking_trains(&mut tb, &base, &add);
        assert!(view.idx_begin == b0);
        assert!((view.idx_end as usize) == tb.len());
        assert!(tb.len() >= before_len && tb.len() <= before_len + (a1 - a0) as usize);
        let mut i = a0 as usize;
        while i < a1 as usize {
            let t = tb[i];
            let mut found = false;
            let mut j = b0 as usize;
            while j < tb.len() {
                if tb[j] == t {
                    found = true;
                }
                j += 1;
            }
            assert!(found);
            i += 1;
        }
        kani::cover!((a1 > a0 && tb.len() > before_len) || (a1 == a0 && tb.len() == before_len));
    }

    macro_rules! abt {
        ($name:ident, $len:expr, $a0:expr, $a1:expr) => {
            #[kani::proof]
            #[kani::unwind(8)]
            #[kani::stub(alloc::fmt::format, stub_format)]
            fn $name() {
                abt_body($len, $a0, $a1)
            }
        };
    }
    abt!(c05_add_blocking_trains_l1_a01, 1, 0, 1);
    abt!(c05_add_blocking_trains_l2_a02, 2, 0, 2);
    abt!(c05_add_blocking_trains_l2_a12, 2, 1, 2);
    abt!(c05_add_blocking_trains_l3_a03, 3, 0, 3);
    abt!(c05_add_blocking_trains_l3_a13, 3, 1, 3);
    abt!(c05_add_blocking_trains_l3_a22, 3, 2, 2);
    abt!(c05_add_blocking_trains_l3_a02, 3, 0, 2);
    abt!(c05_add_blocking_trains_l4_a04, 4, 0, 4);
    abt!(c05_add_blocking_trains_l4_a24, 4, 2, 4);
    abt!(c05_add_blocking_trains_l4_a13, 4, 1, 3);
}
