// hook for meet_pass/train_disp/mod.rs (child module: `use super::*;` reaches the file's private items)
