// hook for meet_pass/train_disp/mod.rs (child module: `use super::*;` reaches the file's private items)
// (inherent methods: visible crate-wide although this hook module is private)
#[cfg(kani)]
mod kani_support {
    use super::super::*;

    impl TrainDisp {
    /// a train with an empty path that is finished (free index 0 == path length 0) or not (free index 1)
    pub(crate) fn verif_mk_train(finished: bool) -> TrainDisp {
        let mut t = TrainDisp::default();
        t.disp_path.clear();
        t.disp_node_idx_free = if finished { None } else { std::num::NonZeroU16::new(1) };
        t.is_blocked = false;
        t.time_update = si::Time::ZERO;
        t
    }

    /// ghost state written by the stub of update_free_path: visited flag and the status it returned
    pub(crate) fn verif_visited(t: &TrainDisp) -> bool {
        t.is_blocked
    }
    pub(crate) fn verif_returned_blocked(t: &TrainDisp) -> bool {
        t.time_update.value != 0.0
    }

    /// stands for TrainDisp::update_free_path: records the visit (never twice) and returns an arbitrary status
    pub(crate) fn verif_stub_update_free_path(
        this: &mut TrainDisp,
        _train_idx_moved: TrainIdx,
        _link_idxs_blocked: &[LinkIdx],
        _is_local: bool,
        _links_blocked: &[TrainIdx],
    ) -> anyhow::Result<free_path::FreePathStatus> {
        assert!(!this.is_blocked, "update_free_path called twice on one train");
        this.is_blocked = true;
        if kani::any() {
            this.time_update = si::Time::ZERO + uc::S * 1.0;
            Ok(free_path::FreePathStatus::Blocked)
        } else {
            Ok(free_path::FreePathStatus::UpdateSuccess)
        }
    }
}
}
