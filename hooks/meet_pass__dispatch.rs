// hook for meet_pass/dispatch.rs (check_deadlock is private)
#[cfg(kani)]
mod kani_harness {
    use super::super::*;

    fn stub_format(_args: core::fmt::Arguments<'_>) -> String {
        String::new()
    }

    /// check_deadlock with TrainDisp::update_free_path replaced by a recording stub: every unfinished train from
    /// train_idx_begin on, other than the moved one, is re-planned exactly once; finished trains and trains before
    /// train_idx_begin are left alone; the returned begin index only skips a finished prefix; a deadlock is reported
    /// exactly when some re-planned train came back blocked.
    #[kani::proof]
    #[kani::unwind(6)]
    #[kani::stub(alloc::fmt::format, stub_format)]
    #[kani::stub(TrainDisp::update_free_path, TrainDisp::verif_stub_update_free_path)]
    fn c05_check_deadlock_replans_every_unfinished_train() {
        const N: usize = 4; // index 0 is the dummy train
        let fin: [bool; N] = [true, kani::any(), kani::any(), kani::any()];
        let mut tds: Vec<TrainDisp> = Vec::with_capacity(N);
        let mut i = 0;
        while i < N {
            tds.push(TrainDisp::verif_mk_train(fin[i]));
            i += 1;
        }
        let begin: usize = kani::any();
        kani::assume(begin >= 1 && begin < N);
        let moved_u: u16 = kani::any();
        kani::assume(moved_u >= 1 && (moved_u as usize) < N);
        let moved: TrainIdx = std::num::NonZeroU16::new(moved_u);
        let links_blocked: Vec<TrainIdx> = Vec::new();
        let r = check_deadlock(&mut tds, &links_blocked, begin, moved, kani::any());
        let (has_deadlock, begin_new) = match r {
            Ok(x) => x,
            Err(_) => {
                assert!(false, "the stub never fails, so check_deadlock must not");
                return;
            }
        };
        let mut any_blocked = false;
        let mut k = 1;
        while k < N {
            let expect = k >= begin && k != moved_u as usize && !fin[k];
            assert!(TrainDisp::verif_visited(&tds[k]) == expect);
            if TrainDisp::verif_returned_blocked(&tds[k]) {
                any_blocked = true;
            }
            k += 1;
        }
        assert!(has_deadlock == any_blocked);
        assert!(begin_new >= begin && begin_new <= N);
        let mut j = begin;
        while j < begin_new {
            assert!(fin[j]); // only a finished prefix is skipped next time
            j += 1;
        }
        kani::cover!(begin_new > begin);
        kani::cover!(has_deadlock);
    }
}
