// Native runner: build an object of the real crate from serde JSON, apply a sequence of
// real method calls, return the resulting object (serde JSON) and how the sequence ended.
use crate::consist::locomotive::powertrain::electric_drivetrain::*;
use crate::consist::locomotive::powertrain::fuel_converter::*;
use crate::consist::locomotive::powertrain::generator::*;
use crate::consist::locomotive::powertrain::reversible_energy_storage::*;
use crate::consist::locomotive::powertrain::ElectricMachine;
use crate::consist::locomotive::*;
use crate::consist::*;
use crate::imports::*;
use serde::de::DeserializeOwned;
use serde_json::{json, Value};
use std::panic::{catch_unwind, AssertUnwindSafe};

pub struct Unsup(pub String);

/// Entry points that need a source file's private items are implemented next to them
/// (per-file hook modules) for these tag types.
pub trait FileEntry {
    fn call(req: &Value) -> Value;
}
pub struct SpeedPointTag;
pub struct PathTpcTag;
pub struct PathResTag;
pub struct BrakingPointTag;
pub struct LinkImplTag;
pub struct TrainStateTag;
pub struct SpeedLimitTrainSimTag;
pub struct SetSpeedTrainSimTag;
pub struct StrapTag;
pub struct TrainConfigTag;
pub struct EstTimesTag;

pub fn f(v: &Value) -> f64 {
    v.as_f64().unwrap_or(f64::NAN)
}
pub fn b(v: &Value) -> bool {
    v.as_bool().unwrap()
}
pub fn of(v: &Value) -> Option<f64> {
    if v.is_null() { None } else { Some(f(v)) }
}
pub fn ob(v: &Value) -> Option<bool> {
    if v.is_null() { None } else { Some(b(v)) }
}

pub type CallRes = Result<anyhow::Result<Value>, Unsup>;

pub fn unit(r: anyhow::Result<()>) -> CallRes {
    Ok(r.map(|_| Value::Null))
}

/// JSON cannot carry NaN / infinities: the harness sends the tokens "__NaN__", "__+inf__", "__-inf__" and the value is rebuilt
/// through serde_yaml, which can
fn to_yaml_special(v: &Value) -> serde_yaml::Value {
    use serde_yaml::Value as Y;
    match v {
        Value::Null => Y::Null,
        Value::Bool(b) => Y::Bool(*b),
        Value::Number(n) => {
            if let Some(i) = n.as_i64() { Y::Number(i.into()) } else if let Some(u) = n.as_u64() { Y::Number(u.into()) } else { Y::Number(n.as_f64().unwrap_or(0.0).into()) }
        }
        Value::String(s) => match s.as_str() {
            "__NaN__" => Y::Number(f64::NAN.into()),
            "__+inf__" => Y::Number(f64::INFINITY.into()),
            "__-inf__" => Y::Number(f64::NEG_INFINITY.into()),
            _ => Y::String(s.clone()),
        },
        Value::Array(a) => Y::Sequence(a.iter().map(to_yaml_special).collect()),
        Value::Object(o) => Y::Mapping(o.iter().map(|(k, v)| (Y::String(k.clone()), to_yaml_special(v))).collect()),
    }
}

pub fn de_special<T: DeserializeOwned>(v: &Value) -> Result<T, String> {
    let txt = v.to_string();
    if txt.contains("__NaN__") || txt.contains("inf__") {
        serde_yaml::from_value(to_yaml_special(v)).map_err(|e| e.to_string())
    } else {
        serde_json::from_value(v.clone()).map_err(|e| e.to_string())
    }
}

pub fn run<T: DeserializeOwned + Serialize>(req: &Value, call: fn(&mut T, &str, &[Value]) -> CallRes) -> Value {
    let mut obj: T = match de_special(&req["recv"]) {
        Ok(o) => o,
        Err(e) => return json!({"kind": "unsupported", "msg": format!("deserialize: {e}")}),
    };
    let mut last = Value::Null;
    let calls = req["calls"].as_array().cloned().unwrap_or_default();
    let n = calls.len();
    for (i, c) in calls.iter().enumerate() {
        let fname = c["fn"].as_str().unwrap_or("");
        let args = c["args"].as_array().cloned().unwrap_or_default();
        let r = catch_unwind(AssertUnwindSafe(|| call(&mut obj, fname, &args)));
        match r {
            Err(p) => {
                let msg = p.downcast_ref::<String>().cloned().or_else(|| p.downcast_ref::<&str>().map(|s| s.to_string())).unwrap_or_default();
                return json!({"kind": "panic", "step": i, "msg": msg, "recv": serde_json::to_value(&obj).unwrap_or(Value::Null)});
            }
            Ok(Err(Unsup(m))) => return json!({"kind": "unsupported", "msg": m}),
            Ok(Ok(Err(e))) => {
                return json!({"kind": "err", "step": i, "msg": format!("{e:#}").chars().take(600).collect::<String>(), "recv": serde_json::to_value(&obj).unwrap_or(Value::Null)});
            }
            Ok(Ok(Ok(v))) => last = v,
        }
    }
    json!({"kind": "ok", "step": n.saturating_sub(1), "ret": last, "recv": serde_json::to_value(&obj).unwrap_or(Value::Null)})
}

fn mse(v: &Value) -> Result<MassSideEffect, Unsup> {
    match v.as_str().unwrap_or("") {
        "None" => Ok(MassSideEffect::None),
        "Extensive" => Ok(MassSideEffect::Extensive),
        "Intensive" => Ok(MassSideEffect::Intensive),
        s => Err(Unsup(format!("MassSideEffect {s}"))),
    }
}

fn call_fc(o: &mut FuelConverter, fname: &str, a: &[Value]) -> CallRes {
    match fname {
        "FuelConverter::save_state" => { o.save_state(); Ok(Ok(Value::Null)) }
        "FuelConverter::step" => { o.step(); Ok(Ok(Value::Null)) }
        "<FuelConverter as Mass>::set_mass" => unit(o.set_mass(of(&a[0]).map(|x| x * uc::KG), mse(&a[1])?)),
        "FuelConverter::solve_energy_consumption" => unit(o.solve_energy_consumption(f(&a[0]) * uc::W, f(&a[1]) * uc::S, b(&a[2]), b(&a[3]))),
        "FuelConverter::set_cur_pwr_out_max" => unit(o.set_cur_pwr_out_max(f(&a[0]) * uc::S)),
        _ => Err(Unsup(format!("no runner entry for {fname}"))),
    }
}

fn call_gen(o: &mut Generator, fname: &str, a: &[Value]) -> CallRes {
    match fname {
        "Generator::save_state" => { o.save_state(); Ok(Ok(Value::Null)) }
        "Generator::step" => { o.step(); Ok(Ok(Value::Null)) }
        "<Generator as Mass>::set_mass" => unit(o.set_mass(of(&a[0]).map(|x| x * uc::KG), mse(&a[1])?)),
        "Generator::set_pwr_in_req" => unit(o.set_pwr_in_req(f(&a[0]) * uc::W, f(&a[1]) * uc::W, f(&a[2]) * uc::S)),
        "Generator::set_cur_pwr_max_out" => unit(o.set_cur_pwr_max_out(f(&a[0]) * uc::W, of(&a[1]).map(|x| x * uc::W))),
        _ => Err(Unsup(format!("no runner entry for {fname}"))),
    }
}

fn call_edrv(o: &mut ElectricDrivetrain, fname: &str, a: &[Value]) -> CallRes {
    match fname {
        "ElectricDrivetrain::save_state" => { o.save_state(); Ok(Ok(Value::Null)) }
        "ElectricDrivetrain::step" => { o.step(); Ok(Ok(Value::Null)) }
        "ElectricDrivetrain::set_pwr_in_req" => unit(o.set_pwr_in_req(f(&a[0]) * uc::W, f(&a[1]) * uc::S)),
        "ElectricDrivetrain::set_cur_pwr_max_out" => unit(o.set_cur_pwr_max_out(f(&a[0]) * uc::W, of(&a[1]).map(|x| x * uc::W))),
        "ElectricDrivetrain::set_cur_pwr_regen_max" => unit(o.set_cur_pwr_regen_max(f(&a[0]) * uc::W)),
        _ => Err(Unsup(format!("no runner entry for {fname}"))),
    }
}

fn call_res(o: &mut ReversibleEnergyStorage, fname: &str, a: &[Value]) -> CallRes {
    match fname {
        "ReversibleEnergyStorage::save_state" => { o.save_state(); Ok(Ok(Value::Null)) }
        "ReversibleEnergyStorage::step" => { o.step(); Ok(Ok(Value::Null)) }
        "<ReversibleEnergyStorage as Mass>::set_mass" => unit(o.set_mass(of(&a[0]).map(|x| x * uc::KG), mse(&a[1])?)),
        "ReversibleEnergyStorage::solve_energy_consumption" => unit(o.solve_energy_consumption(f(&a[0]) * uc::W, f(&a[1]) * uc::W, f(&a[2]) * uc::S)),
        "ReversibleEnergyStorage::set_cur_pwr_out_max" => unit(o.set_cur_pwr_out_max(f(&a[0]) * uc::W, of(&a[1]).map(|x| x * uc::J), of(&a[2]).map(|x| x * uc::J))),
        _ => Err(Unsup(format!("no runner entry for {fname}"))),
    }
}

fn call_loco(o: &mut Locomotive, fname: &str, a: &[Value]) -> CallRes {
    match fname {
        "<Locomotive as LocoTrait>::save_state" => { LocoTrait::save_state(o); Ok(Ok(Value::Null)) }
        "<Locomotive as LocoTrait>::step" => { LocoTrait::step(o); Ok(Ok(Value::Null)) }
        "Locomotive::set_save_interval" => { o.set_save_interval(a[0].as_u64().map(|x| x as usize)); Ok(Ok(Value::Null)) }
        "<Locomotive as Mass>::set_mass" => unit(o.set_mass(of(&a[0]).map(|x| x * uc::KG), mse(&a[1])?)),
        "Locomotive::set_force_max" => {
            let eff = match a[1].as_str().unwrap_or("") {
                "Mass" => ForceMaxSideEffect::Mass,
                "UpdateMu" => ForceMaxSideEffect::UpdateMu,
                "SetMuToNone" => ForceMaxSideEffect::SetMuToNone,
                "SetMassToNone" => ForceMaxSideEffect::SetMassToNone,
                "SetMassAndMuToNone" => ForceMaxSideEffect::SetMassAndMuToNone,
                s => return Err(Unsup(format!("ForceMaxSideEffect {s}"))),
            };
            unit(o.set_force_max(f(&a[0]) * uc::N, eff))
        }
        "Locomotive::set_mu" => {
            let eff = match a[1].as_str().unwrap_or("") {
                "Mass" => MuSideEffect::Mass,
                "ForceMax" => MuSideEffect::ForceMax,
                "SetMassToNone" => MuSideEffect::SetMassToNone,
                s => return Err(Unsup(format!("MuSideEffect {s}"))),
            };
            unit(o.set_mu(f(&a[0]) * uc::R, eff))
        }
        "Locomotive::set_pwr_aux" => { o.set_pwr_aux(ob(&a[0])); Ok(Ok(Value::Null)) }
        "Locomotive::set_cur_pwr_max_out" => unit(o.set_cur_pwr_max_out(of(&a[0]).map(|x| x * uc::W), f(&a[1]) * uc::S)),
        "Locomotive::solve_energy_consumption" => unit(o.solve_energy_consumption(f(&a[0]) * uc::W, f(&a[1]) * uc::S, ob(&a[2]))),
        _ => Err(Unsup(format!("no runner entry for {fname}"))),
    }
}

fn call_consist(o: &mut Consist, fname: &str, a: &[Value]) -> CallRes {
    match fname {
        "<Consist as LocoTrait>::save_state" => { LocoTrait::save_state(o); Ok(Ok(Value::Null)) }
        "<Consist as LocoTrait>::step" => { LocoTrait::step(o); Ok(Ok(Value::Null)) }
        "Consist::set_save_interval" => { o.set_save_interval(a[0].as_u64().map(|x| x as usize)); Ok(Ok(Value::Null)) }
        "<Consist as LocoTrait>::set_cur_pwr_max_out" => unit(o.set_cur_pwr_max_out(of(&a[0]).map(|x| x * uc::W), f(&a[1]) * uc::S)),
        "Consist::get_energy_fuel" => Ok(Ok(json!(o.get_energy_fuel().get::<si::joule>()))),
        "Consist::get_net_energy_res" => Ok(Ok(json!(o.get_net_energy_res().get::<si::joule>()))),
        "<Consist as Mass>::mass" => Ok(o.mass().map(|m| json!(m.map(|x| x.get::<si::kilogram>())))),
        "Consist::force_max" => Ok(o.force_max().map(|x| json!(x.get::<si::newton>()))),
        "Consist::set_pwr_aux" => unit(o.set_pwr_aux(ob(&a[0]))),
        "Consist::verif_set_n_res_equipped" => { o.verif_set_n_res_equipped(a[0].as_u64().map(|x| x as u8)); Ok(Ok(Value::Null)) }
        "Consist::set_cur_pwr_max_out" => unit(o.set_cur_pwr_max_out(of(&a[0]).map(|x| x * uc::W), f(&a[1]) * uc::S)),
        "Consist::solve_energy_consumption" => unit(o.solve_energy_consumption(f(&a[0]) * uc::W, f(&a[1]) * uc::S, ob(&a[2]))),
        _ => Err(Unsup(format!("no runner entry for {fname}"))),
    }
}

fn call_pdct(o: &mut PowerDistributionControlType, fname: &str, a: &[Value]) -> CallRes {
    let locos: Vec<Locomotive> = serde_json::from_value(a[0].clone()).map_err(|e| Unsup(format!("loco_vec: {e}")))?;
    let st: ConsistState = serde_json::from_value(a[1].clone()).map_err(|e| Unsup(format!("consist state: {e}")))?;
    let r = match fname {
        "<PowerDistributionControlType as SolvePower>::solve_positive_traction" => o.solve_positive_traction(&locos, &st),
        "<PowerDistributionControlType as SolvePower>::solve_negative_traction" => o.solve_negative_traction(&locos, &st),
        _ => return Err(Unsup(format!("no runner entry for {fname}"))),
    };
    Ok(r.map(|v| json!(v.iter().map(|x| x.get::<si::watt>()).collect::<Vec<f64>>())))
}

pub fn vf(v: &Value) -> Vec<f64> {
    v.as_array().map(|a| a.iter().map(f).collect()).unwrap_or_default()
}

fn call_free(fname: &str, a: &[Value]) -> CallRes {
    match fname {
        "utils::interp1d" => Ok(crate::utils::interp1d(&f(&a[0]), &vf(&a[1]), &vf(&a[2]), b(&a[3])).map(|v| json!(v))),
        "utils::interp3d" => {
            let p = vf(&a[0]);
            let g: Vec<Vec<f64>> = a[1].as_array().unwrap().iter().map(vf).collect();
            let grid: [Vec<f64>; 3] = [g[0].clone(), g[1].clone(), g[2].clone()];
            let vals: Vec<Vec<Vec<f64>>> = a[2].as_array().unwrap().iter().map(|x| x.as_array().unwrap().iter().map(vf).collect()).collect();
            Ok(crate::utils::interp3d(&[p[0], p[1], p[2]], &grid, &vals).map(|v| json!(v)))
        }
        _ => Err(Unsup(format!("no runner entry for {fname}"))),
    }
}

fn run_free(req: &Value) -> Value {
    let calls = req["calls"].as_array().cloned().unwrap_or_default();
    let mut last = Value::Null;
    for (i, c) in calls.iter().enumerate() {
        let fname = c["fn"].as_str().unwrap_or("").to_string();
        let args = c["args"].as_array().cloned().unwrap_or_default();
        let r = catch_unwind(AssertUnwindSafe(|| call_free(&fname, &args)));
        match r {
            Err(p) => {
                let msg = p.downcast_ref::<String>().cloned().or_else(|| p.downcast_ref::<&str>().map(|s| s.to_string())).unwrap_or_default();
                return json!({"kind": "panic", "step": i, "msg": msg});
            }
            Ok(Err(Unsup(m))) => return json!({"kind": "unsupported", "msg": m}),
            Ok(Ok(Err(e))) => return json!({"kind": "err", "step": i, "msg": format!("{e:#}").chars().take(600).collect::<String>()}),
            Ok(Ok(Ok(v))) => last = v,
        }
    }
    json!({"kind": "ok", "ret": last, "step": calls.len().saturating_sub(1)})
}

fn vres(r: crate::validate::ValidationResults) -> CallRes {
    Ok(match r {
        Ok(()) => Ok(Value::Null),
        Err(e) => Err(anyhow!("{:?}", e)),
    })
}

fn call_links(o: &mut Vec<crate::track::Link>, fname: &str, _a: &[Value]) -> CallRes {
    use crate::validate::ObjState;
    match fname {
        "<[Link] as ObjState>::validate" => vres(o.as_slice().validate()),
        _ => Err(Unsup(format!("no runner entry for {fname}"))),
    }
}

fn call_elevs(o: &mut Vec<crate::track::Elev>, fname: &str, _a: &[Value]) -> CallRes {
    use crate::validate::ObjState;
    match fname {
        "<[Elev] as ObjState>::validate" => vres(o.as_slice().validate()),
        _ => Err(Unsup(format!("no runner entry for {fname}"))),
    }
}

fn call_headings(o: &mut Vec<crate::track::Heading>, fname: &str, _a: &[Value]) -> CallRes {
    use crate::validate::ObjState;
    match fname {
        "<[Heading] as ObjState>::validate" => vres(o.as_slice().validate()),
        _ => Err(Unsup(format!("no runner entry for {fname}"))),
    }
}

fn call_cats(o: &mut Vec<crate::track::CatPowerLimit>, fname: &str, _a: &[Value]) -> CallRes {
    use crate::validate::ObjState;
    match fname {
        "<[CatPowerLimit] as ObjState>::validate" => vres(o.as_slice().validate()),
        _ => Err(Unsup(format!("no runner entry for {fname}"))),
    }
}

fn call_speed_limits(o: &mut Vec<crate::track::SpeedLimit>, fname: &str, _a: &[Value]) -> CallRes {
    use crate::validate::ObjState;
    match fname {
        "<[SpeedLimit] as ObjState>::validate" => vres(o.as_slice().validate()),
        _ => Err(Unsup(format!("no runner entry for {fname}"))),
    }
}

pub fn dispatch(line: &str) -> String {
    let req: Value = match serde_json::from_str(line) {
        Ok(v) => v,
        Err(e) => return json!({"kind": "unsupported", "msg": format!("bad request: {e}")}).to_string(),
    };
    let ty = req["recv_ty"].as_str().unwrap_or("").to_string();
    let f0 = req["calls"][0]["fn"].as_str().unwrap_or("").to_string();
    let out = match ty.as_str() {
        _ if f0.starts_with("PathTpc::") => <PathTpcTag as FileEntry>::call(&req),
        "W_UpdateRes" => <StrapTag as FileEntry>::call(&req),
        "SetSpeedTrainSim" => <SetSpeedTrainSimTag as FileEntry>::call(&req),
        "W_EstScenario" | "Vec<EstTime>" | "Vec<est_times::EstTime>" => <EstTimesTag as FileEntry>::call(&req),
        "TrainState" => <TrainStateTag as FileEntry>::call(&req),
        "BrakingPoints" | "W_Recalc" => <BrakingPointTag as FileEntry>::call(&req),
        "TrainSimBuilder" => <TrainConfigTag as FileEntry>::call(&req),
        "SpeedLimitTrainSim" | "W_TimedWalk" => <SpeedLimitTrainSimTag as FileEntry>::call(&req),
        "<free>" if req["calls"][0]["fn"].as_str().unwrap_or("").ends_with("Network as SerdeAPI>::from_file") => <LinkImplTag as FileEntry>::call(&req),
        "<free>" => run_free(&req),
        "Vec<link_impl::Link>" => run::<Vec<crate::track::Link>>(&req, call_links),
        "link_impl::Link" => run::<crate::track::Link>(&req, |o, f, _a| match f {
            "<link_impl::Link as ObjState>::validate" => vres(crate::validate::ObjState::validate(o)),
            _ => Err(Unsup(format!("no runner entry for {f}"))),
        }),
        "Vec<Elev>" => run::<Vec<crate::track::Elev>>(&req, call_elevs),
        "Vec<Heading>" => run::<Vec<crate::track::Heading>>(&req, call_headings),
        "Vec<CatPowerLimit>" => run::<Vec<crate::track::CatPowerLimit>>(&req, call_cats),
        "Vec<SpeedLimit>" => run::<Vec<crate::track::SpeedLimit>>(&req, call_speed_limits),
        "Vec<SpeedLimitPoint>" => <SpeedPointTag as FileEntry>::call(&req),
        "PowerDistributionControlType" => run::<PowerDistributionControlType>(&req, call_pdct),
        "Locomotive" => run::<Locomotive>(&req, call_loco),
        "LocomotiveSimulation" => run::<crate::consist::locomotive::loco_sim::LocomotiveSimulation>(&req, |o, f, _a| match f {
            "LocomotiveSimulation::walk" => unit(o.walk()),
            "LocomotiveSimulation::step" => unit(o.step()),
            _ => Err(Unsup(format!("no runner entry for {f}"))),
        }),
        "ConsistSimulation" => run::<crate::consist::consist_sim::ConsistSimulation>(&req, |o, f, _a| match f {
            "ConsistSimulation::walk" => unit(o.walk()),
            "ConsistSimulation::step" => unit(o.step()),
            _ => Err(Unsup(format!("no runner entry for {f}"))),
        }),
        "Consist" => run::<Consist>(&req, call_consist),
        "FuelConverter" => run::<FuelConverter>(&req, call_fc),
        "Generator" => run::<Generator>(&req, call_gen),
        "ElectricDrivetrain" => run::<ElectricDrivetrain>(&req, call_edrv),
        "ReversibleEnergyStorage" => run::<ReversibleEnergyStorage>(&req, call_res),
        _ => json!({"kind": "unsupported", "msg": format!("no runner for receiver type {ty}")}),
    };
    out.to_string()
}
