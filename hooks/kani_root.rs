// Kani harnesses that only need crate-visible items (filled in by later commits).
