// hook for meet_pass/est_times/mod.rs (update_times_forward / update_times_backward and the node type's module are private)
#[cfg(nrel_altrios_verif)]
pub(crate) mod native {
    #[allow(unused_imports)]
    use super::super::*;
    use crate::verif_hook::runner::*;
    use serde_json::{json, Value};
    use std::cell::RefCell;
    #[allow(unused_imports)]
    use crate::track::*;
    #[allow(unused_imports)]
    use crate::validate::ObjState;

    thread_local! {
        /// graphs handed to update_times_forward by make_est_times since the last take()
        static PRE: RefCell<Vec<Vec<EstTime>>> = RefCell::new(Vec::new());
    }

    /// called (cfg-guarded) by make_est_times right before the forward / backward passes
    pub fn record_pre_update(est_times: &[EstTime]) {
        PRE.with(|p| p.borrow_mut().push(est_times.to_vec()));
    }

    fn take_pre() -> Vec<Vec<EstTime>> {
        PRE.with(|p| std::mem::take(&mut *p.borrow_mut()))
    }

    fn est_json(e: &EstTime) -> Value {
        let t = |x: f64| if x.is_nan() { json!("__NaN__") } else if x.is_infinite() { json!(if x > 0.0 { "__+inf__" } else { "__-inf__" }) } else { json!(x) };
        json!({
            "time_sched": t(e.time_sched.get::<si::second>()),
            "time_to_next": t(e.time_to_next.get::<si::second>()),
            "dist_to_next": t(e.dist_to_next.get::<si::meter>()),
            "speed": t((e.speed / uc::MPS).get::<si::ratio>()),
            "idx_next": e.idx_next, "idx_next_alt": e.idx_next_alt, "idx_prev": e.idx_prev, "idx_prev_alt": e.idx_prev_alt,
            "link_event": {"link_idx": e.link_event.link_idx.idx(), "est_type": match e.link_event.est_type { EstType::Arrive => "Arrive", EstType::Clear => "Clear", EstType::Fake => "Fake" }},
        })
    }

    fn graph_json(g: &[EstTime]) -> Value {
        Value::Array(g.iter().map(est_json).collect())
    }

    /// a small network from a descriptor: links[k] = {prev, prev_alt, next, next_alt, length, speed} (k = 0 is link 1; the dummy is added here),
    /// flat and straight, one train-type-neutral speed set with a single whole-link limit
    fn mk_network(desc: &Value) -> Vec<Link> {
        use crate::track::*;
        let mut net = vec![Link::default()];
        for (k, l) in desc.as_array().cloned().unwrap_or_default().iter().enumerate() {
            let u = |n: &str| LinkIdx::new(l[n].as_u64().unwrap_or(0) as u32);
            let len = l["length"].as_f64().unwrap_or(4000.0) * uc::M;
            let speed = l["speed"].as_f64().unwrap_or(20.0) * uc::MPS;
            net.push(Link {
                idx_curr: LinkIdx::new(k as u32 + 1),
                idx_flip: u("flip"),
                idx_prev: u("prev"),
                idx_prev_alt: u("prev_alt"),
                idx_next: u("next"),
                idx_next_alt: u("next_alt"),
                length: len,
                elevs: vec![Elev::new(0.0 * uc::M, 0.0 * uc::M), Elev::new(len, 0.0 * uc::M)],
                speed_set: Some(SpeedSet {
                    speed_limits: vec![SpeedLimit { offset_start: 0.0 * uc::M, offset_end: len, speed }],
                    speed_params: vec![],
                    is_head_end: false,
                }),
                ..Default::default()
            });
        }
        net
    }

    fn loc(idx: u64) -> Location {
        Location { location_id: "x".into(), offset: si::Length::ZERO, link_idx: LinkIdx::new(idx as u32), is_front_end: false, ..Default::default() }
    }

    /// run the real make_est_times on a described scenario; reply with the graph as it was handed to the relinking passes and as returned
    fn scenario(req: &Value) -> Value {
        use crate::validate::ObjState;
        let d = &req["recv"];
        let net = mk_network(&d["links"]);
        let valid = match net.as_slice().validate() { Ok(()) => Value::Null, Err(e) => json!(format!("{e:?}").chars().take(400).collect::<String>()) };
        let mut ts = SpeedLimitTrainSim::valid();
        ts.path_tpc = PathTpc::new(TrainParams::valid());
        ts.fric_brake.ramp_up_time = 0.0 * uc::S;
        ts.fric_brake.ramp_up_coeff = 0.6 * uc::R;
        ts.state.time = d["t0"].as_f64().unwrap_or(0.0) * uc::S;
        ts.origs = d["origs"].as_array().cloned().unwrap_or_default().iter().map(|x| loc(x.as_u64().unwrap_or(0))).collect();
        ts.dests = d["dests"].as_array().cloned().unwrap_or_default().iter().map(|x| loc(x.as_u64().unwrap_or(0))).collect();
        let _ = take_pre();
        let r = std::panic::catch_unwind(std::panic::AssertUnwindSafe(|| make_est_times(ts, &net)));
        let pre = take_pre();
        let pre_j = pre.last().map(|g| graph_json(g)).unwrap_or(Value::Null);
        match r {
            Err(p) => json!({"kind": "panic", "step": 0, "pre": pre_j, "network_valid": valid,
                             "msg": p.downcast_ref::<String>().cloned().or_else(|| p.downcast_ref::<&str>().map(|s| s.to_string())).unwrap_or_default()}),
            Ok(Err(e)) => json!({"kind": "err", "step": 0, "pre": pre_j, "network_valid": valid, "msg": format!("{e:#}").chars().take(600).collect::<String>()}),
            Ok(Ok((g, _))) => json!({"kind": "ok", "step": 0, "recv": Value::Null, "ret": Value::Null, "pre": pre_j, "post": graph_json(&g.val), "network_valid": valid}),
        }
    }

    fn call(o: &mut Vec<EstTime>, fname: &str, a: &[Value]) -> CallRes {
        match fname {
            "update_times::update_times_forward" => { update_times_forward(o.as_mut_slice(), f(&a[0]) * uc::S); Ok(Ok(Value::Null)) }
            "update_times::update_times_backward" => { update_times_backward(o.as_mut_slice()); Ok(Ok(Value::Null)) }
            "update_est_times_add" => {
                let mov: Vec<SimpleState> = serde_json::from_value(a[0].clone()).map_err(|e| Unsup(format!("movement: {e}")))?;
                let lps: Vec<LinkPoint> = serde_json::from_value(a[1].clone()).map_err(|e| Unsup(format!("link points: {e}")))?;
                update_est_times_add(o, &mov, &lps, f(&a[2]) * uc::M);
                Ok(Ok(Value::Null))
            }
            _ => Err(Unsup(format!("no runner entry for {fname}"))),
        }
    }

    impl FileEntry for EstTimesTag {
        fn call(req: &Value) -> Value {
            match req["recv_ty"].as_str().unwrap_or("") {
                "W_EstScenario" => scenario(req),
                "Vec<EstTime>" | "Vec<est_times::EstTime>" => {
                    let mut v = run::<Vec<EstTime>>(req, call);
                    v["note"] = json!("time_sched = null stands for NaN");
                    v
                }
                t => json!({"kind": "unsupported", "msg": format!("no runner for {t}")}),
            }
        }
    }
}
