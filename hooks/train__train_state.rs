// hook for train/train_state.rs
#[cfg(nrel_altrios_verif)]
mod native {
    #[allow(unused_imports)]
    use super::super::*;
    use crate::verif_hook::runner::*;
    use serde_json::{json, Value};

    fn call(o: &mut TrainState, fname: &str, a: &[Value]) -> CallRes {
        match fname {
            "train_state::set_link_and_offset" => {
                let tpc: crate::track::PathTpc = serde_json::from_value(a[0].clone()).map_err(|e| Unsup(format!("PathTpc: {e}")))?;
                unit(set_link_and_offset(o, &tpc))
            }
            _ => Err(Unsup(format!("no runner entry for {fname}"))),
        }
    }

    impl FileEntry for TrainStateTag {
        fn call(req: &Value) -> Value {
            match req["recv_ty"].as_str().unwrap_or("") {
                "TrainState" => run::<TrainState>(req, call),
                t => json!({"kind": "unsupported", "msg": format!("no runner for {t}")}),
            }
        }
    }
}
