// hook for train/train_state.rs (child module: `use super::*;` reaches the file's private items)
#[cfg(nrel_altrios_verif)]
mod native {
    #[allow(unused_imports)]
    use super::super::*;
    use crate::verif_hook::runner::*;
    use serde_json::{json, Value};

    impl FileEntry for TrainStateTag {
        fn call(_req: &Value) -> Value {
            json!({"kind": "unsupported", "msg": "no entries yet"})
        }
    }
}
