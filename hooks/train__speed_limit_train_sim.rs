// hook for train/speed_limit_train_sim.rs
#[cfg(nrel_altrios_verif)]
mod native {
    #[allow(unused_imports)]
    use super::super::*;
    use crate::verif_hook::runner::*;
    use serde_json::{json, Value};

    fn call(o: &mut SpeedLimitTrainSim, fname: &str, a: &[Value]) -> CallRes {
        match fname {
            "SpeedLimitTrainSim::set_save_interval" => { o.set_save_interval(a[0].as_u64().map(|x| x as usize)); Ok(Ok(Value::Null)) }
            "SpeedLimitTrainSim::solve_step" => unit(o.solve_step()),
            "SpeedLimitTrainSim::solve_required_pwr" => unit(o.solve_required_pwr()),
            "SpeedLimitTrainSim::step" => unit(o.step()),
            "SpeedLimitTrainSim::get_energy_fuel" => Ok(Ok(json!(o.get_energy_fuel(b(&a[0])).get::<si::joule>()))),
            "SpeedLimitTrainSim::get_net_energy_res" => Ok(Ok(json!(o.get_net_energy_res(b(&a[0])).get::<si::joule>()))),
            "SpeedLimitTrainSim::get_kilometers" => Ok(Ok(json!(o.get_kilometers(b(&a[0]))))),
            "SpeedLimitTrainSim::get_megagram_kilometers" => Ok(Ok(json!(o.get_megagram_kilometers(b(&a[0]))))),
            _ => Err(Unsup(format!("no runner entry for {fname}"))),
        }
    }

    impl FileEntry for SpeedLimitTrainSimTag {
        fn call(req: &Value) -> Value {
            match req["recv_ty"].as_str().unwrap_or("") {
                "SpeedLimitTrainSim" => run::<SpeedLimitTrainSim>(req, call),
                t => json!({"kind": "unsupported", "msg": format!("no runner for {t}")}),
            }
        }
    }
}
