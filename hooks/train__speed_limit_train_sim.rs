// hook for train/speed_limit_train_sim.rs
#[cfg(nrel_altrios_verif)]
mod native {
    #[allow(unused_imports)]
    use super::super::*;
    use crate::verif_hook::runner::*;
    use serde_json::{json, Value};

    fn call(o: &mut SpeedLimitTrainSim, fname: &str, a: &[Value]) -> CallRes {
        match fname {
            "SpeedLimitTrainSim::set_save_interval" => { o.set_save_interval(a[0].as_u64().map(|x| x as usize)); Ok(Ok(Value::Null)) }
            "SpeedLimitTrainSim::solve_step" => unit(o.solve_step()),
            "SpeedLimitTrainSim::solve_required_pwr" => unit(o.solve_required_pwr()),
            "SpeedLimitTrainSim::recalc_braking_points" => unit(o.recalc_braking_points()),
            "FricBrake::set_cur_force_max_out" => unit(o.fric_brake.set_cur_force_max_out(f(&a[0]) * uc::S)),
            "SpeedLimitTrainSim::step" => unit(o.step()),
            "SpeedLimitTrainSim::get_energy_fuel" => Ok(Ok(json!(o.get_energy_fuel(b(&a[0])).get::<si::joule>()))),
            "SpeedLimitTrainSim::get_net_energy_res" => Ok(Ok(json!(o.get_net_energy_res(b(&a[0])).get::<si::joule>()))),
            "SpeedLimitTrainSim::get_kilometers" => Ok(Ok(json!(o.get_kilometers(b(&a[0]))))),
            "SpeedLimitTrainSim::get_megagram_kilometers" => Ok(Ok(json!(o.get_megagram_kilometers(b(&a[0]))))),
            _ => Err(Unsup(format!("no runner entry for {fname}"))),
        }
    }

    /// a fixed, plain scenario for replaying index-logic counterexamples of walk_timed_path on the real code: the stock valid
    /// train (brake set up as TrainSimBuilder does) on a chain of flat 4 km links, one per entry of the timed path; only the
    /// initial clock and the scheduled times come from the counterexample
    fn timed_walk(t0: f64, times: &[f64]) -> Value {
        use crate::track::*;
        let n = times.len() as u32;
        let mk = |idx: u32| -> Link {
            let mut speed_sets = std::collections::HashMap::new();
            speed_sets.insert(TrainType::Freight, SpeedSet { speed_limits: vec![], speed_params: vec![], is_head_end: false });
            Link {
                idx_curr: LinkIdx::new(idx),
                idx_prev: LinkIdx::new(if idx > 1 { idx - 1 } else { 0 }),
                idx_next: LinkIdx::new(if idx < n { idx + 1 } else { 0 }),
                length: 4000.0 * uc::M,
                elevs: vec![Elev::new(0.0 * uc::M, 0.0 * uc::M), Elev::new(4000.0 * uc::M, 0.0 * uc::M)],
                speed_sets,
                ..Default::default()
            }
        };
        let mut net = vec![Link::default()];
        for i in 1..=n {
            net.push(mk(i));
        }
        let mut ts = SpeedLimitTrainSim::valid();
        ts.path_tpc = PathTpc::new(TrainParams::valid());
        ts.fric_brake.ramp_up_time = 0.0 * uc::S;
        ts.fric_brake.ramp_up_coeff = 0.6 * uc::R;
        ts.state.time = t0 * uc::S;
        let tp: Vec<LinkIdxTime> = times.iter().enumerate().map(|(i, &t)| LinkIdxTime::new(LinkIdx::new(i as u32 + 1), t * uc::S)).collect();
        let r = std::panic::catch_unwind(std::panic::AssertUnwindSafe(|| ts.walk_timed_path(&net, &tp)));
        match r {
            Err(p) => json!({"kind": "panic", "step": 0, "msg": p.downcast_ref::<String>().cloned().or_else(|| p.downcast_ref::<&str>().map(|s| s.to_string())).unwrap_or_default()}),
            Ok(Err(e)) => json!({"kind": "err", "step": 0, "msg": format!("{e:#}").chars().take(600).collect::<String>()}),
            Ok(Ok(())) => json!({"kind": "ok", "step": 0, "recv": Value::Null, "ret": Value::Null}),
        }
    }

    impl FileEntry for SpeedLimitTrainSimTag {
        fn call(req: &Value) -> Value {
            match req["recv_ty"].as_str().unwrap_or("") {
                "W_TimedWalk" => {
                    let t0 = req["recv"]["t0"].as_f64().unwrap_or(0.0);
                    let times: Vec<f64> = req["recv"]["times"].as_array().map(|a| a.iter().map(|x| x.as_f64().unwrap_or(0.0)).collect()).unwrap_or_default();
                    timed_walk(t0, &times)
                }
                "SpeedLimitTrainSim" => run::<SpeedLimitTrainSim>(req, call),
                t => json!({"kind": "unsupported", "msg": format!("no runner for {t}")}),
            }
        }
    }
}
