// hook for lin_search_hint.rs (child module: `use super::*;` reaches the file's private items)
