// Included into altrios-core's crate root as `verif_hook` when built with
// --cfg nrel_altrios_verif (native replay / translator validation) or under cargo-kani.

#[cfg(nrel_altrios_verif)]
pub mod runner {
    include!(concat!(env!("NREL_ALTRIOS_VERIF_DIR"), "/hooks/runner.rs"));
}

#[cfg(kani)]
pub mod kani_root {
    include!(concat!(env!("NREL_ALTRIOS_VERIF_DIR"), "/hooks/kani_root.rs"));
}
