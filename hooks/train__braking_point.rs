// hook for train/braking_point.rs (child module: `use super::*;` reaches the file's private items)
#[cfg(nrel_altrios_verif)]
mod native {
    #[allow(unused_imports)]
    use super::super::*;
    use crate::verif_hook::runner::*;
    use serde_json::{json, Value};

    impl FileEntry for BrakingPointTag {
        fn call(_req: &Value) -> Value {
            json!({"kind": "unsupported", "msg": "no entries yet"})
        }
    }
}
