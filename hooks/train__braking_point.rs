// hook for train/braking_point.rs (BrakingPoints fields are private)
#[cfg(nrel_altrios_verif)]
mod native {
    #[allow(unused_imports)]
    use super::super::*;
    use crate::verif_hook::runner::*;
    use serde_json::{json, Value};

    fn call(o: &mut BrakingPoints, fname: &str, a: &[Value]) -> CallRes {
        match fname {
            "BrakingPoints::calc_speeds" => {
                let (lim, tgt) = o.calc_speeds(f(&a[0]) * uc::M, f(&a[1]) * uc::MPS, f(&a[2]) * uc::S);
                Ok(Ok(json!([lim.value, tgt.value])))
            }
            _ => Err(Unsup(format!("no runner entry for {fname}"))),
        }
    }

    /// the objects one `recalc` call touches, bundled (mirrors the harness-side wrapper `W_Recalc`)
    #[derive(Serialize, Deserialize)]
    pub struct WRecalc {
        pub bp: BrakingPoints,
        pub state: TrainState,
        pub fric_brake: FricBrake,
        pub train_res: TrainRes,
        pub path_tpc: PathTpc,
    }

    fn call_w(o: &mut WRecalc, fname: &str, a: &[Value]) -> CallRes {
        match fname {
            "BrakingPoints::recalc" => unit(o.bp.recalc(&o.state, &o.fric_brake, &o.train_res, &o.path_tpc)),
            "BrakingPoints::calc_speeds" => {
                let (lim, tgt) = o.bp.calc_speeds(f(&a[0]) * uc::M, f(&a[1]) * uc::MPS, f(&a[2]) * uc::S);
                Ok(Ok(json!([lim.value, tgt.value])))
            }
            _ => Err(Unsup(format!("no runner entry for {fname}"))),
        }
    }

    impl FileEntry for BrakingPointTag {
        fn call(req: &Value) -> Value {
            match req["recv_ty"].as_str().unwrap_or("") {
                "BrakingPoints" => run::<BrakingPoints>(req, call),
                "W_Recalc" => run::<WRecalc>(req, call_w),
                t => json!({"kind": "unsupported", "msg": format!("no runner for {t}")}),
            }
        }
    }
}
