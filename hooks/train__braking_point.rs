// hook for train/braking_point.rs (BrakingPoints fields are private)
#[cfg(nrel_altrios_verif)]
mod native {
    #[allow(unused_imports)]
    use super::super::*;
    use crate::verif_hook::runner::*;
    use serde_json::{json, Value};

    fn call(o: &mut BrakingPoints, fname: &str, a: &[Value]) -> CallRes {
        match fname {
            "BrakingPoints::calc_speeds" => {
                let (lim, tgt) = o.calc_speeds(f(&a[0]) * uc::M, f(&a[1]) * uc::MPS, f(&a[2]) * uc::S);
                Ok(Ok(json!([lim.value, tgt.value])))
            }
            _ => Err(Unsup(format!("no runner entry for {fname}"))),
        }
    }

    impl FileEntry for BrakingPointTag {
        fn call(req: &Value) -> Value {
            match req["recv_ty"].as_str().unwrap_or("") {
                "BrakingPoints" => run::<BrakingPoints>(req, call),
                t => json!({"kind": "unsupported", "msg": format!("no runner for {t}")}),
            }
        }
    }
}
