// hook for consist/locomotive/locomotive_model.rs (child module: `use super::*;` reaches the file's private items)
