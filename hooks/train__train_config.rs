// hook for train/train_config.rs (make_train_sim_parts is private)
#[cfg(nrel_altrios_verif)]
mod native {
    #[allow(unused_imports)]
    use super::super::*;
    use crate::verif_hook::runner::*;
    use serde_json::{json, Value};

    fn call(o: &mut TrainSimBuilder, fname: &str, _a: &[Value]) -> CallRes {
        match fname {
            "TrainSimBuilder::make_train_sim_parts" => Ok(o.make_train_sim_parts(None).map(|(tp, st, tpc, res, fb)| {
                json!({"train_params": tp, "state": st, "path_tpc": tpc, "train_res": res, "fric_brake": fb})
            })),
            "TrainConfig::make_train_params" => Ok(o.train_config.make_train_params().map(|tp| json!(tp))),
            _ => Err(Unsup(format!("no runner entry for {fname}"))),
        }
    }

    impl FileEntry for TrainConfigTag {
        fn call(req: &Value) -> Value {
            match req["recv_ty"].as_str().unwrap_or("") {
                "TrainSimBuilder" => run::<TrainSimBuilder>(req, call),
                t => json!({"kind": "unsupported", "msg": format!("no runner for {t}")}),
            }
        }
    }
}
