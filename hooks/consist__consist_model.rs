// hook for consist/consist_model.rs (child module: `use super::*;` reaches the file's private items)
