// hook for consist/consist_model.rs (child module: `use super::*;` reaches the file's private items)
#[cfg(nrel_altrios_verif)]
impl super::Consist {
    /// put the (serde-skipped, never invalidated) cached count of battery-equipped units into a given state
    pub fn verif_set_n_res_equipped(&mut self, v: Option<u8>) {
        self.n_res_equipped = v;
    }
}
