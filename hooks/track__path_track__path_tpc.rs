// hook for track/path_track/path_tpc.rs (private: PathTpc fields, add_speeds)
#[cfg(nrel_altrios_verif)]
mod native {
    #[allow(unused_imports)]
    use super::super::*;
    use crate::verif_hook::runner::*;
    use serde_json::{json, Value};

    fn call_sp(o: &mut Vec<SpeedLimitPoint>, fname: &str, a: &[Value]) -> CallRes {
        match fname {
            "PathTpc::add_speeds" => {
                let tp: TrainParams = serde_json::from_value(a[0].clone()).map_err(|e| Unsup(format!("TrainParams: {e}")))?;
                let ss: SpeedSet = serde_json::from_value(a[1].clone()).map_err(|e| Unsup(format!("SpeedSet: {e}")))?;
                unit(PathTpc::add_speeds(o, &tp, &ss, f(&a[2]) * uc::M))
            }
            _ => Err(Unsup(format!("no runner entry for {fname}"))),
        }
    }

    fn call_tpc(o: &mut PathTpc, fname: &str, a: &[Value]) -> CallRes {
        match fname {
            "PathTpc::extend" => {
                let net: Vec<Link> = serde_json::from_value(a[0].clone()).map_err(|e| Unsup(format!("network: {e}")))?;
                let path: Vec<LinkIdx> = serde_json::from_value(a[1].clone()).map_err(|e| Unsup(format!("link path: {e}")))?;
                unit(o.extend(&net, &path))
            }
            "PathTpc::finish" => { o.finish(); Ok(Ok(Value::Null)) }
            _ => Err(Unsup(format!("no runner entry for {fname}"))),
        }
    }

    impl FileEntry for PathTpcTag {
        fn call(req: &Value) -> Value {
            match req["recv_ty"].as_str().unwrap_or("") {
                "Vec<SpeedLimitPoint>" => run::<Vec<SpeedLimitPoint>>(req, call_sp),
                "PathTpc" => run::<PathTpc>(req, call_tpc),
                t => json!({"kind": "unsupported", "msg": format!("no runner for {t}")}),
            }
        }
    }
}
