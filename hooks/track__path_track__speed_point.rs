// hook for track/path_track/speed_point.rs (private module: InsertSpeed is not nameable from the crate root)
#[cfg(nrel_altrios_verif)]
mod native {
    use super::super::*;
    use crate::verif_hook::runner::*;
    use serde_json::Value;

    fn call(o: &mut Vec<SpeedLimitPoint>, fname: &str, a: &[Value]) -> CallRes {
        match fname {
            "<Vec<SpeedLimitPoint> as InsertSpeed>::insert_speed" => {
                let s: SpeedLimit = serde_json::from_value(a[0].clone()).map_err(|e| Unsup(format!("SpeedLimit: {e}")))?;
                o.insert_speed(&s);
                Ok(Ok(Value::Null))
            }
            _ => Err(Unsup(format!("no runner entry for {fname}"))),
        }
    }

    impl FileEntry for SpeedPointTag {
        fn call(req: &Value) -> Value {
            run::<Vec<SpeedLimitPoint>>(req, call)
        }
    }
}
