// hook for train/set_speed_train_sim.rs
#[cfg(nrel_altrios_verif)]
mod native {
    #[allow(unused_imports)]
    use super::super::*;
    use crate::verif_hook::runner::*;
    use serde_json::{json, Value};

    fn call(o: &mut SetSpeedTrainSim, fname: &str, a: &[Value]) -> CallRes {
        match fname {
            "SetSpeedTrainSim::solve_required_pwr" => unit(o.solve_required_pwr(f(&a[0]) * uc::S)),
            "SetSpeedTrainSim::solve_step" => unit(o.solve_step()),
            "SetSpeedTrainSim::step" => unit(o.step()),
            _ => Err(Unsup(format!("no runner entry for {fname}"))),
        }
    }

    impl FileEntry for SetSpeedTrainSimTag {
        fn call(req: &Value) -> Value {
            match req["recv_ty"].as_str().unwrap_or("") {
                "SetSpeedTrainSim" => run::<SetSpeedTrainSim>(req, call),
                t => json!({"kind": "unsupported", "msg": format!("no runner for {t}")}),
            }
        }
    }
}
