// hook for train/resistance/method/strap.rs (Strap's fields are private)
#[cfg(nrel_altrios_verif)]
mod native {
    use super::super::*;
    use crate::verif_hook::runner::*;
    use serde_json::{json, Value};

    /// the objects one `update_res` call touches, bundled (mirrors the harness-side wrapper `W_UpdateRes`)
    #[derive(Serialize, Deserialize)]
    pub struct WUpdateRes {
        pub res: Strap,
        pub state: TrainState,
        pub path_tpc: PathTpc,
    }

    fn dir(v: &Value) -> Dir {
        match v.as_str().unwrap_or("Fwd") {
            "Bwd" => Dir::Bwd,
            "Unk" => Dir::Unk,
            _ => Dir::Fwd,
        }
    }

    fn call(o: &mut WUpdateRes, fname: &str, a: &[Value]) -> CallRes {
        match fname {
            "<method::strap::Strap as ResMethod>::update_res" => unit(o.res.update_res(&mut o.state, &o.path_tpc, &dir(&a[0]))),
            _ => Err(Unsup(format!("no runner entry for {fname}"))),
        }
    }

    impl FileEntry for StrapTag {
        fn call(req: &Value) -> Value {
            match req["recv_ty"].as_str().unwrap_or("") {
                "W_UpdateRes" => run::<WUpdateRes>(req, call),
                t => json!({"kind": "unsupported", "msg": format!("no runner for {t}")}),
            }
        }
    }
}
