// hook for track/link/link_impl.rs (child module: `use super::*;` reaches the file's private items)
#[cfg(nrel_altrios_verif)]
mod native {
    #[allow(unused_imports)]
    use super::super::*;
    use crate::verif_hook::runner::*;
    use serde_json::{json, Value};

    /// `Network::from_file` on a real temporary file holding the given links in the legacy layout
    pub fn from_file_legacy(links_old: &Value) -> Value {
        let links: Vec<LinkOld> = match serde_json::from_value(links_old.clone()) {
            Ok(l) => l,
            Err(e) => return json!({"kind": "unsupported", "msg": format!("legacy links do not deserialize: {e}")}),
        };
        let dir = std::env::temp_dir().join(format!("verif_runner_{}", std::process::id()));
        let _ = std::fs::create_dir_all(&dir);
        let path = dir.join("legacy_network.yaml");
        let txt = match serde_yaml::to_string(&NetworkOld(links)) {
            Ok(t) => t,
            Err(e) => return json!({"kind": "unsupported", "msg": format!("cannot write the legacy file: {e}")}),
        };
        if let Err(e) = std::fs::write(&path, txt) {
            return json!({"kind": "unsupported", "msg": format!("cannot write the legacy file: {e}")});
        }
        let r = std::panic::catch_unwind(|| Network::from_file(&path));
        let _ = std::fs::remove_file(&path);
        let _ = std::fs::remove_dir(&dir);
        match r {
            Err(p) => json!({"kind": "panic", "step": 0, "msg": p.downcast_ref::<String>().cloned().or_else(|| p.downcast_ref::<&str>().map(|s| s.to_string())).unwrap_or_default()}),
            Ok(Err(e)) => json!({"kind": "err", "step": 0, "msg": format!("{e:#}").chars().take(600).collect::<String>()}),
            Ok(Ok(n)) => json!({"kind": "ok", "step": 0, "recv": Value::Null, "ret": serde_json::to_value(&n.0).unwrap_or(Value::Null)}),
        }
    }

    impl FileEntry for LinkImplTag {
        fn call(req: &Value) -> Value {
            let fname = req["calls"][0]["fn"].as_str().unwrap_or("");
            if fname.ends_with("::from_file") {
                return from_file_legacy(&req["calls"][0]["args"][0]);
            }
            json!({"kind": "unsupported", "msg": format!("no runner entry for {fname}")})
        }
    }
}
