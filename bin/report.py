"""Aggregate harness results -> known-finding matching, evidence file, exit code."""
import json
import os
import re
import time

VERIF = os.environ.get("NREL_ALTRIOS_VERIF_DIR", "/verif")


def load_known():
    p = os.path.join(VERIF, "known_findings.json")
    if not os.path.exists(p):
        return []
    return json.load(open(p)).get("findings", [])


def match_known(known, pid, harness, role):
    for k in known:
        if k.get("status") != "known":
            continue  # 'fixed' entries suppress nothing
        if k["property"] == pid and re.fullmatch(k["harness"], harness) and re.fullmatch(k["role"], role):
            return k
    return None


def _clean(o):
    if isinstance(o, dict):
        return {k: _clean(v) for k, v in o.items() if not k.startswith("_") and not (k == "claim" and not isinstance(v, (str, list, type(None))))}
    if isinstance(o, list):
        return [_clean(x) for x in o]
    if isinstance(o, (str, int, float, bool)) or o is None:
        return o
    return repr(o)


def finish(pid, tier, seed, mres, kres, infra_err, t0, ev_path):
    known = load_known()
    lines = []
    n_viol = 0
    n_unrepro = 0
    n_known = 0
    inconclusive = []
    if infra_err:
        inconclusive.append(infra_err)
    rep_dir = os.path.join(VERIF, "replays", pid)
    viol_records = []
    for r in mres:
        if r["status"] == "inconclusive" or r.get("inconclusive"):
            for msg in r.get("inconclusive", []):
                inconclusive.append(f"{r['harness']}: {msg}")
        seen_roles = set()
        for v in r.get("violations", []):
            role = v["role"]
            rp = v.get("replay") or {}
            repro = rp.get("reproduced")
            rec = {"harness": r["harness"], "claim": v["claim"], "role": role, "model": v["model"], "reproduced": repro, "engine": "M"}
            k = match_known(known, pid, r["harness"], role)
            if repro is True:
                if k:
                    if (r["harness"], role) not in seen_roles:
                        lines.append(f"KNOWN-FINDING: property={pid} {k['what']} [harness={r['harness']} claim={role}]")
                        n_known += 1
                    rec["known_finding"] = k.get("id", k["what"][:40])
                else:
                    os.makedirs(rep_dir, exist_ok=True)
                    fn = os.path.join(rep_dir, re.sub(r"[^\w.-]", "_", f"{r['harness']}.{role}") + ".json")
                    json.dump(_clean({"property": pid, "harness": r["harness"], "claim": v["claim"], "model": v["model"], "replay": rp}), open(fn, "w"), indent=1)
                    if (r["harness"], role) not in seen_roles:
                        lines.append(f"VIOLATION property={pid} replay={fn}")
                        n_viol += 1
                    rec["replay_file"] = fn
            elif repro is False:
                if not k:
                    n_unrepro += 1
                    lines.append(f"NOT-REPRODUCED property={pid} harness={r['harness']} claim={v['claim']} (solver counterexample does not reproduce on the real build: encoding suspect)")
            else:
                if not k:
                    inconclusive.append(f"{r['harness']}: counterexample for {v['claim']} could not be replayed: {rp.get('error') or rp}")
            seen_roles.add((r["harness"], role))
            viol_records.append(rec)
    for r in kres:
        if r["status"] == "inconclusive":
            inconclusive.append(f"{r['harness']}: {r.get('reason')}")
        elif r["status"] == "violated":
            k = match_known(known, pid, r["harness"], r.get("role", "kani"))
            rec = {"harness": r["harness"], "claim": r.get("failed_checks"), "role": r.get("role", "kani"), "reproduced": r.get("reproduced"), "engine": "K"}
            if k:
                lines.append(f"KNOWN-FINDING: property={pid} {k['what']} [harness={r['harness']}]")
                n_known += 1
                rec["known_finding"] = k.get("id", k["what"][:40])
            elif r.get("reproduced") is False:
                n_unrepro += 1
                lines.append(f"NOT-REPRODUCED property={pid} harness={r['harness']} (Kani counterexample does not reproduce natively)")
            else:
                os.makedirs(rep_dir, exist_ok=True)
                fn = os.path.join(rep_dir, r["harness"] + ".kani.json")
                json.dump(_clean(r), open(fn, "w"), indent=1)
                lines.append(f"VIOLATION property={pid} replay={fn}")
                n_viol += 1
                rec["replay_file"] = fn
            viol_records.append(rec)

    # ---- evidence
    obligations = sum(len(r.get("obligations", [])) for r in mres) + sum(r.get("checks", 0) for r in kres)
    discharged = sum(1 for r in mres for o in r.get("obligations", []) if o["status"] == "holds") + sum(r.get("checks_ok", 0) for r in kres)
    paths = sum(r.get("summary", {}).get("paths", 0) for r in mres)
    stmts = sum(r.get("summary", {}).get("mir_statements_executed", 0) for r in mres)
    tv = sum(r.get("translator_validation", {}).get("vectors", 0) for r in mres)
    tv_agree = sum(r.get("translator_validation", {}).get("agree", 0) for r in mres)
    replays = sum(1 for v in viol_records if v.get("reproduced") is not None)
    solver_time = sum(r.get("summary", {}).get("solver_time_s", 0) + r.get("summary", {}).get("feasibility_time_s", 0) for r in mres) + sum(r.get("solver_s", 0) for r in kres)
    queries = sum(r.get("summary", {}).get("obligations", 0) + r.get("summary", {}).get("feasibility_queries", 0) for r in mres)
    functions = sorted(set(f for r in mres for f in r.get("functions", [])) | set(f for r in kres for f in r.get("functions", [])))
    samples = []
    for r in mres:
        for o in r.get("obligations", [])[:3]:
            samples.append({"harness": r["harness"], "obligation": o["name"], "status": o["status"], "solver_s": o["time_s"]})
    for r in kres[:6]:
        samples.append({"harness": r["harness"], "engine": "kani", "status": r["status"], "checks": r.get("checks"), "cover": r.get("cover")})
    distinct = len(set((r["harness"], o["name"]) for r in mres for o in r.get("obligations", []) if o["status"] == "holds")) + sum(r.get("checks_ok", 0) for r in kres)
    assumptions = sorted(set(a for r in mres for a in r.get("assumptions", [])) | set(a for r in kres for a in r.get("assumptions", [])))
    status = "pass"
    code = 0
    if n_viol:
        status, code = "violation", 1
    elif n_unrepro:
        status, code = "not_reproduced", 2
    elif inconclusive:
        status, code = "inconclusive", 3
    ev = {
        "property_id": pid,
        "tier": tier,
        "seed": seed,
        "level": "model_checking",
        "wall_s": round(time.time() - t0, 2),
        "violations": n_viol,
        "status": status,
        "coverage": {
            "states": max(1, paths + sum(r.get("checks", 0) for r in kres)),
            "transitions": max(1, stmts + sum(r.get("program_steps", 0) for r in kres)),
            "traces_validated_against_impl": tv_agree + replays,
            "samples": samples[:40] or [{"note": "no obligations were generated"}],
            "evaluations": max(1, queries + sum(r.get("checks", 0) for r in kres)),
            "distinct_nontrivial": distinct,
            "rule": "evaluations = solver queries issued (path-feasibility + obligations; for Kani harnesses: checks decided by CBMC). distinct_nontrivial = distinct (harness, obligation) pairs proved on a path whose reachability was witnessed by a model (engine M) plus Kani checks reported SUCCESS in harnesses whose cover witness was SATISFIED. states = symbolic paths explored; transitions = MIR statements executed symbolically.",
            "obligations": obligations,
            "discharged": discharged,
            "exhaustive": False,
            "explanation": "Bounded symbolic checking of the real code: engine M executes the rustc MIR of the listed functions path by path with z3 (f64 as exact reals, NaN/inf excluded by stated assumption, container lengths concrete and bounded); engine K is Kani/CBMC on the compiled crate (bit-precise). Each obligation is decided for every input inside the stated bounds; nothing is claimed outside them.",
            "functions_encoded": functions,
            "harnesses": [
                _clean({k: r.get(k) for k in ("harness", "engine", "status", "bounds", "notes", "outcome_kinds", "reachable_ok_outcomes", "summary", "translator_validation", "wall_s", "inconclusive")}) for r in mres
            ] + [_clean(r) for r in kres],
            "solver_time_s": round(solver_time, 2),
            "solver_queries": queries,
            "translator_validation_vectors": tv,
            "translator_validation_agree": tv_agree,
            "counterexamples": _clean(viol_records),
            "known_findings_reported": n_known,
            "inconclusive": inconclusive,
        },
        "assumptions": assumptions,
    }
    json.dump(ev, open(ev_path, "w"), indent=1)
    for l in lines:
        print(l)
    for msg in inconclusive:
        print("INCONCLUSIVE:", msg[:400])
    print(f"check {pid} {tier}: {status} — {len(mres)} engine-M harnesses, {len(kres)} Kani harnesses, {discharged}/{obligations} obligations discharged, "
          f"{paths} paths, {tv_agree}/{tv} translator-validation vectors agree, solver {round(solver_time, 1)} s, wall {ev['wall_s']} s")
    return code
