"""Build substrate shared by all checks: shadow package, MIR dump, native runner, (Kani builds are per run).
Everything is rebuilt from /repo's current working tree; artefacts are cached by a hash of the sources."""
import fcntl
import hashlib
import os
import subprocess
import sys
import time

VERIF = os.environ.get("NREL_ALTRIOS_VERIF_DIR", "/verif")
REPO = os.environ.get("NREL_ALTRIOS_REPO", "/repo")
BUILD = os.path.join(VERIF, "build")


class BuildError(Exception):
    pass


def src_hash(extra_dirs=()):
    h = hashlib.sha256()
    roots = [os.path.join(REPO, "rust", "altrios-core"), os.path.join(REPO, "rust", "Cargo.toml"), os.path.join(REPO, "rust", "Cargo.lock")] + list(extra_dirs)
    for r in roots:
        if os.path.isfile(r):
            h.update(r.encode())
            h.update(open(r, "rb").read())
            continue
        for d, dirs, files in os.walk(r):
            dirs.sort()
            if "target" in dirs:
                dirs.remove("target")
            for fn in sorted(files):
                if fn.endswith((".rs", ".toml", ".yaml", ".lock")):
                    p = os.path.join(d, fn)
                    h.update(p.encode())
                    h.update(open(p, "rb").read())
    return h.hexdigest()


def env():
    e = dict(os.environ)
    e["NREL_ALTRIOS_VERIF_DIR"] = VERIF
    e["CARGO_NET_OFFLINE"] = "true"
    e.pop("RUSTFLAGS", None)
    return e


def run(cmd, cwd, extra_env=None, log=None, timeout=3600):
    e = env()
    if extra_env:
        e.update(extra_env)
    p = subprocess.run(cmd, cwd=cwd, env=e, stdout=subprocess.PIPE, stderr=subprocess.STDOUT, text=True, timeout=timeout)
    if log:
        open(log, "w").write(p.stdout)
    return p.returncode, p.stdout


def prepare(need_mir=True, need_runner=True, need_kani=False):
    os.makedirs(BUILD, exist_ok=True)
    lock = open(os.path.join(BUILD, ".lock"), "w")
    fcntl.flock(lock, fcntl.LOCK_EX)
    try:
        rc, out = run([sys.executable, os.path.join(VERIF, "bin", "gen_shadow.py")], VERIF)
        if rc != 0:
            raise BuildError("gen_shadow failed: " + out[-2000:])
        shadow = os.path.join(BUILD, "shadow")
        info = {"shadow": shadow}
        hs = src_hash()
        info["src_hash"] = hs
        if need_mir:
            mirp = os.path.join(BUILD, "mir.txt")
            hp = os.path.join(BUILD, "mir.hash")
            if not (os.path.exists(mirp) and os.path.exists(hp) and open(hp).read() == hs):
                t = time.time()
                # touch lib.rs is not possible in /repo: use a fresh fingerprint by removing the crate's own artefacts
                tdir = os.path.join(BUILD, "target-mir")
                subprocess.run("rm -rf %s/debug/.fingerprint/altrios-core-* %s/debug/deps/libaltrios_core-*" % (tdir, tdir), shell=True)
                e = env()
                e["CARGO_TARGET_DIR"] = tdir
                p = subprocess.run(["cargo", "+nightly", "rustc", "--offline", "--lib", "--", "-Zunpretty=mir", "-C", "debug-assertions=off", "-C", "overflow-checks=off"],
                                   cwd=shadow, env=e, stdout=subprocess.PIPE, stderr=subprocess.PIPE, text=True, timeout=3600)
                if p.returncode != 0 or len(p.stdout) < 1000:
                    raise BuildError("MIR dump failed (does the tree compile?):\n" + p.stderr[-3000:])
                open(mirp, "w").write(p.stdout)
                open(hp, "w").write(hs)
                info["mir_dump_s"] = round(time.time() - t, 1)
            info["mir"] = mirp
        if need_runner:
            rdir = os.path.join(VERIF, "runner")
            hr = src_hash([os.path.join(VERIF, "hooks"), os.path.join(VERIF, "runner", "src"), os.path.join(VERIF, "runner", "Cargo.toml")])
            hp = os.path.join(BUILD, "runner.hash")
            binp = os.path.join(BUILD, "target-runner", "debug", "verif-runner")
            if not (os.path.exists(binp) and os.path.exists(hp) and open(hp).read() == hr):
                t = time.time()
                lockf = os.path.join(rdir, "Cargo.lock")
                if not os.path.exists(lockf):
                    import shutil
                    shutil.copy(os.path.join(shadow, "Cargo.lock"), lockf)
                rc, out = run(["cargo", "build", "--offline"], rdir, {"RUSTFLAGS": "--cfg nrel_altrios_verif", "CARGO_TARGET_DIR": os.path.join(BUILD, "target-runner")})
                if rc != 0:
                    raise BuildError("native runner build failed:\n" + out[-3000:])
                open(hp, "w").write(hr)
                info["runner_build_s"] = round(time.time() - t, 1)
            info["runner"] = binp
        return info
    finally:
        fcntl.flock(lock, fcntl.LOCK_UN)
        lock.close()
