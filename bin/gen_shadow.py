#!/usr/bin/env python3
"""Regenerate the shadow package /verif/build/shadow from /repo's current manifests.

The shadow package compiles the repository's own source files ([lib] path points
into /repo); only the manifest differs: polars / polars-lazy / pyo3-polars are
replaced by empty stub crates (they are only used behind feature "pyo3"), default
features are off, debug-assertions are off (release semantics), and the crate is
its own workspace so that Kani / nightly / stable can build it with their own
target directories.
"""
import os, shutil, sys, tomllib

VERIF = os.environ.get("NREL_ALTRIOS_VERIF_DIR", "/verif")
REPO = os.environ.get("NREL_ALTRIOS_REPO", "/repo")
OUT = os.path.join(VERIF, "build", "shadow")
STUBBED = {"polars", "polars-lazy", "pyo3-polars"}
DROPPED = {"pyo3"}


def fmt_dep(name, spec, ws_deps):
    if isinstance(spec, str):
        spec = {"version": spec}
    spec = dict(spec)
    if spec.pop("workspace", False):
        base = ws_deps[name]
        if isinstance(base, str):
            base = {"version": base}
        merged = dict(base)
        feats = list(base.get("features", [])) + list(spec.get("features", []))
        merged.update({k: v for k, v in spec.items() if k != "features"})
        if feats:
            merged["features"] = feats
        spec = merged
    if name in STUBBED:
        spec = {"path": os.path.join(VERIF, "stubs", name), "features": spec.get("features", [])}
    if "path" in spec and not os.path.isabs(spec["path"]):
        spec["path"] = os.path.normpath(os.path.join(REPO, "rust", spec["path"]))
    parts = []
    for k, v in spec.items():
        if isinstance(v, bool):
            parts.append(f"{k} = {'true' if v else 'false'}")
        elif isinstance(v, list):
            parts.append(f"{k} = [{', '.join(repr(x).replace(chr(39), chr(34)) for x in v)}]")
        else:
            parts.append(f'{k} = "{v}"')
    return f"{name} = {{ {', '.join(parts)} }}"


def main():
    core = tomllib.load(open(os.path.join(REPO, "rust/altrios-core/Cargo.toml"), "rb"))
    ws = tomllib.load(open(os.path.join(REPO, "rust/Cargo.toml"), "rb"))
    ws_deps = ws["workspace"]["dependencies"]
    lines = [
        "[package]",
        'name = "altrios-core"',
        f'version = "{core["package"]["version"]}"',
        'edition = "2021"',
        "",
        "[lib]",
        f'path = "{REPO}/rust/altrios-core/src/lib.rs"',
        "",
        "[dependencies]",
    ]
    for name, spec in core["dependencies"].items():
        if name in DROPPED:
            continue
        lines.append(fmt_dep(name, spec, ws_deps))
    lines += [
        "",
        "[features]",
        "default = []",
        'logging = ["dep:log"]',
        "",
        "[workspace]",
        "",
        "[lints.rust]",
        'unexpected_cfgs = { level = "allow" }',
        "",
        "[profile.dev]",
        "debug-assertions = false",
        "opt-level = 0",
        "",
        "[profile.release]",
        "debug-assertions = false",
        "",
    ]
    os.makedirs(OUT, exist_ok=True)
    new = "\n".join(lines)
    p = os.path.join(OUT, "Cargo.toml")
    if not os.path.exists(p) or open(p).read() != new:
        open(p, "w").write(new)
    lock_src = os.path.join(REPO, "rust/Cargo.lock")
    lock_dst = os.path.join(OUT, "Cargo.lock")
    if not os.path.exists(lock_dst):
        shutil.copy(lock_src, lock_dst)
    os.makedirs(os.path.join(OUT, ".cargo"), exist_ok=True)
    open(os.path.join(OUT, ".cargo", "config.toml"), "w").write("[net]\noffline = true\n")
    print(OUT)


if __name__ == "__main__":
    main()
