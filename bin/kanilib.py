"""Engine K: run Kani proof harnesses (compiled into the crate through the cfg(kani) hooks) and collect verdicts."""
import os
import re
import subprocess
import time
from concurrent.futures import ThreadPoolExecutor

VERIF = os.environ.get("NREL_ALTRIOS_VERIF_DIR", "/verif")
BUILD = os.path.join(VERIF, "build")


def run_one(harness, timeout_s, tdir):
    env = dict(os.environ)
    env["NREL_ALTRIOS_VERIF_DIR"] = VERIF
    env["CARGO_NET_OFFLINE"] = "true"
    env.pop("RUSTFLAGS", None)
    cmd = ["cargo", "kani", "-Z", "stubbing", "-Z", "unstable-options", "--harness", harness, "--output-format", "terse", "--target-dir", tdir]
    t0 = time.time()
    try:
        p = subprocess.run("ulimit -v 25000000; exec " + " ".join(cmd), shell=True, cwd=os.path.join(BUILD, "shadow"), env=env, capture_output=True, text=True, timeout=timeout_s)
        out = p.stdout + "\n" + p.stderr
        rc = p.returncode
    except subprocess.TimeoutExpired as e:
        out = (e.stdout or b"").decode(errors="replace") if isinstance(e.stdout, bytes) else (e.stdout or "")
        rc = -9
    wall = time.time() - t0
    res = {"harness": harness, "engine": "K (Kani 0.68 / CBMC 6.11, bit-precise)", "wall_s": round(wall, 1), "functions": [], "assumptions": []}
    m = re.search(r"VERIFICATION:- (\w+)", out)
    verdict = m.group(1) if m else None
    checks = re.search(r"\*\* (\d+) of (\d+) failed", out)
    cov = re.search(r"\*\* (\d+) of (\d+) cover properties satisfied", out)
    res["checks"] = int(checks.group(2)) if checks else 0
    res["checks_ok"] = (int(checks.group(2)) - int(checks.group(1))) if checks else 0
    res["cover"] = f"{cov.group(1)}/{cov.group(2)}" if cov else None
    ms = re.search(r"Verification Time: ([\d.]+)s", out)
    res["solver_s"] = float(ms.group(1)) if ms else 0.0
    mst = re.search(r"(\d+) steps", out)
    res["program_steps"] = int(mst.group(1)) if mst else 0
    failed = re.findall(r"Failed Checks: (.*)", out)
    if rc == -9:
        res["status"] = "inconclusive"
        res["reason"] = f"timeout after {timeout_s} s"
    elif verdict == "SUCCESSFUL":
        if cov and int(cov.group(1)) < int(cov.group(2)):
            res["status"] = "inconclusive"
            res["reason"] = "vacuous: a cover witness was not satisfied"
        else:
            res["status"] = "pass"
    elif verdict == "FAILED":
        if "unwinding assertion" in out and all("unwinding assertion" in f for f in failed):
            res["status"] = "inconclusive"
            res["reason"] = "unwinding bound too small: " + "; ".join(failed)[:300]
        elif "Status: ERROR" in out or "out of memory" in out.lower() or "CBMC failed" in out or not failed:
            res["status"] = "inconclusive"
            res["reason"] = "CBMC error / out of memory / no failed check reported: " + out[-300:]
        else:
            res["status"] = "violated"
            res["failed_checks"] = failed[:10]
            res["role"] = "kani:" + (failed[0][:60] if failed else "failed")
            res["reproduced"] = None
    else:
        res["status"] = "inconclusive"
        res["reason"] = "no verdict (build failure?): " + out[-800:]
    return res


def run_harnesses(pid, harnesses, tier):
    """harnesses: list of (name, timeout_s) ; sequentially per target dir, in parallel across 4 target dirs"""
    n_par = int(os.environ.get("VERIF_KANI_JOBS", "4"))
    # first run serially once to build (shared target dir per worker)
    results = []
    def worker(args):
        i, h = args
        name, tmo = h[0], h[1]
        tdir = os.path.join(BUILD, f"target-kani-{i % n_par}")
        r = run_one(name, tmo, tdir)
        if len(h) > 2:
            r["functions"] = list(h[2])
        if len(h) > 3:
            r["assumptions"] = list(h[3])
        if len(h) > 4:
            r["bounds"] = h[4]
        r["stubs"] = ["alloc::fmt::format -> String::new()"]
        return r
    with ThreadPoolExecutor(max_workers=n_par) as ex:
        for r in ex.map(worker, list(enumerate(harnesses))):
            results.append(r)
    return results
