#!/usr/bin/env python3
"""Regenerate MANIFEST.json from the table below (one entry per claimed property; the rest is not_applicable)."""
import json, os, subprocess
VERIF = "/verif"
props = [json.loads(l) for l in open(os.path.join(VERIF, "properties.jsonl"))]
hook_commits = subprocess.run(["git", "-C", "/repo", "log", "--format=%H", "--grep", "^verif hook"], capture_output=True, text=True).stdout.split()

M_TECH = "symbolic execution of rustc MIR + z3 (SMT over reals), bounded; counterexamples replayed on the native build"
M_NOTE = " f64 is modelled as exact reals (NaN/inf excluded by assumption; divisors proved non-zero on accepted paths); rounding is outside the claim. Trusted base: rustc MIR dump, the mir2smt interpreter (validated per harness against the real build on sampled vectors), z3."
CLAIMED = {
 "C20": dict(
  text="Bounded symbolic checking of the real code. Engine M executes the MIR of the Mass impls of FuelConverter / Generator / ReversibleEnergyStorage (set_mass with every side-effect option from every Some/None combination of mass and specific power/energy), of Locomotive::set_mass, set_force_max (all side effects), set_mu (all side effects), mu, mass, check_force_max, the inherent derived_mass, and of Consist::mass / force_max for unit patterns with known / unknown masses. From an arbitrary consistent pre-state z3 decides for every value: an accepted update leaves mass = rating / specific value and force_max = mu * mass * g whenever both are known, the side-effect option does exactly what it documents (Extensive changes the rating, Intensive the specific value, None clears it), a rejected update leaves the object unchanged or still consistent, consist mass is the sum of unit masses (None if none known, Err if mixed) and consist force_max is the sum of the units'. One setter call from an arbitrary consistent state is an inductive step over setter sequences.",
  note="The train-level clause (static mass = cars or override + consist, TrainSimBuilder::make_train_sim_parts / TrainConfig::make_train_params) is NOT covered: those functions go through HashMap<String,u32> lookups that the engine does not model yet. Found and fixed: Locomotive::set_mass and set_force_max(.., Mass) always failed when mu was set (known_findings.json)." + M_NOTE,
  technique=M_TECH, design_ref="DESIGN.md section 4 (C20)"),
 "C12": dict(
  text="Bounded symbolic checking of the real code. Engine M executes the MIR of SetSpeedTrainSim::solve_step end to end (consist calls on a one-DummyLoco consist, update_res, solve_required_pwr, set_link_and_offset) on a symbolic train state, irregular symbolic time stamps and speeds and a path of symbolic link points, and of train_state::set_link_and_offset alone on 2-6 link points with the position anywhere including exactly on link boundaries. z3 decides: saved time = previous stamp + saved step size, step size = trace step, the front advances by step size * mean of the speeds before and after, total distance grows by |position change|, rear position = front position - train length, and the reported front link and in-link offset identify exactly the front position (base offset + in-link offset = position, 0 < in-link offset, link = the one containing the position).",
  note="One step from an arbitrary state (inductive). The kinematic lines of SpeedLimitTrainSim::solve_required_pwr (time += dt; offset += dt*v_avg; total_dist) are not yet executed by a harness: its force solution involves the braking-curve lookup (planned with C03); the same offset_back defect was fixed there by inspection. Found and fixed: saved offset_back lagged the front by one step (known_findings.json)." + M_NOTE,
  technique=M_TECH, design_ref="DESIGN.md section 4 (C12)"),
 "C14": dict(
  text="Bounded symbolic checking of the real code. Engine M executes the MIR of SetSpeedTrainSim::solve_required_pwr (symbolic consist limits, resistances, masses, trace of 2-4 points with irregular time stamps) and of the whole SetSpeedTrainSim::solve_step. z3 decides: pwr_res = total resistance * mean speed, pwr_accel = compound mass * (v_i^2 - v_{i-1}^2) / (2 * the trace's own dt), state.dt = trace dt, pwr_whl_out = inertia + resistance clipped to [-max(dyn_brake_max,0), min(published traction limit, max(0, previous power + rate*previous dt))], energies accumulate that power times dt with the positive/negative split on its sign, saved time and speed equal the trace, and an accepted step implies non-negative speed at both samples of the step.",
  note="solve_step runs on a consist of one DummyLoco (unlimited power) so that every demand is accepted and counterexamples replay on the real build; utils::almost_eq is modelled with its IEEE behaviour for 0/0. Found and fixed: a negative first sample was accepted (known_findings.json)." + M_NOTE,
  technique=M_TECH, design_ref="DESIGN.md section 4 (C14)"),
 "C07": dict(
  text="Bounded symbolic checking of the real code. Engine M executes the MIR of method::Strap::update_res with everything it calls (path_res::Strap::calc_res, LinSearchHint::calc_idx, calc_res_strap, PathResCoeff::calc_res_val, the four Basic::calc_res kinds, TrainState::mass) on a symbolic train state, symbolic resistance coefficients and symbolic grade / curve profiles, for every admissible pair of cached indices (enumerated) and each search direction (Fwd, Bwd, Unk). z3 decides for all inputs: weight_static = g*mass_static, bearing/rolling/Davis-B/aero terms equal their definitions, grade and curve resistance equal weight*(cumulative value at front - at rear)/length against an independent piecewise-linear oracle, elev_front and grade_front/grade_back are the track's values at the front / rear, offset_back = offset - length. One call from arbitrary admissible cached indices is an inductive step for the index cache, so runs of any length are covered.",
  note="Profiles of 2-5 points with strictly increasing offsets and res_net the running integral of res_coeff (what PathTpc::extend builds; C06 planned). Cached indices must not be ahead of (forward search) / behind (backward search) the true ones: that is the documented precondition of calc_idx. method::Point and the aggregation of per-car coefficients in TrainSimBuilder::make_train_sim_parts are not covered. Found and fixed: grade_back used the front coefficient (known_findings.json)." + M_NOTE,
  technique=M_TECH, design_ref="DESIGN.md section 4 (C07)"),
 "C02": dict(
  text="Bounded symbolic checking of the real code. Engine M executes the MIR of InsertSpeed::insert_speed, min_speed, PathTpc::add_speeds, TrainParams::speed_set_applies and CompareType::applies. Inductive step: for every sorted profile of n points (not necessarily canonical), every restriction starting at/after the first point and every symbolic query position x, the profile after the insertion is <= the restriction's speed wherever the restriction covers x and <= the previous profile everywhere. add_speeds: for symbolic base offset, train length, speed_max, head-end or tail-end sets with 1-2 restrictions and an optional gating parameter of every limit/compare type, the enforced limit is <= each applicable restriction over [start+base, end+base(+train length for tail-end sets)) and never above speed_max; a set that does not apply changes nothing. By induction over the insertion sequence this covers any number of links and restrictions per link.",
  note="n = 1-3 points quick, 1-5 thorough; 1-2 restrictions per set. Assumes restrictions non-empty (start < end), positive speeds, and the invariant profile <= speed_max, which is re-proved as a post-condition. The hash-map lookup of a speed set by train type (extract_speed_set) and PathTpc::extend's link loop are outside this check (extend composition is part of C06)." + M_NOTE,
  technique=M_TECH, design_ref="DESIGN.md section 4 (C02)"),
 "C13": dict(
  text="Same executions as C02 with the equality: after insert_speed the limit in force at every symbolic position equals min(previous profile, restriction speed where it covers the position), the profile stays sorted, never repeats an offset three times and stays canonical (no equal-valued neighbours) when it was; after add_speeds it equals min(previous profile, all applicable covering restrictions). z3 decides this for every profile of n points, restriction geometry (inside one interval, spanning several points, abutting, same start/end as existing points) and query position.",
  note="n = 1-3 quick, 1-5 thorough. This check found and a `fix:` commit repaired a genuine defect (restriction strictly inside one interval never restored the outer limit), see known_findings.json. Zero-length restrictions (start == end) are outside the domain: observed to create a triple offset, recorded as an observation in DESIGN.md." + M_NOTE,
  technique=M_TECH, design_ref="DESIGN.md section 4 (C13)"),
 "C01": dict(
  text="Bounded symbolic checking of the real code. Engine M executes the MIR of the four component step functions, ConventionalLoco/BatteryElectricLoco::solve_energy_consumption and the Locomotive sequence set_pwr_aux; set_cur_pwr_max_out; solve_energy_consumption (what LocomotiveSimulation::solve_step drives) from an arbitrary symbolic pre-state and z3 decides each balance as an identity over all inputs: per-component power balance, every cumulative energy grows by its own power times dt, every hand-off (engine shaft = generator input, generator output = drivetrain input, battery electrical = propulsion + aux), the locomotive ledger fuel/chemical = wheel + dynamic brake + aux + losses, and SOC moves by chemical energy / capacity. One step from an arbitrary state is inductive, so the cumulative ledger follows for every trace prefix.",
  note="Efficiency maps of 2-4 points; battery map 1x2x2 / 1x3x2. At locomotive level the efficiency-map interpolations are replaced by their contracts (result within the map's value range), proved by C08's interp contract harnesses; SOC derating tables are executed exactly. Consist-level roll-ups (pwr_fuel, pwr_reves, energies = sums over units) are not yet covered by a harness (thorough tier planned); HybridLoco and DummyLoco are outside the claim." + M_NOTE,
  technique=M_TECH, design_ref="DESIGN.md section 4 (C01)"),
 "C09": dict(
  text="Bounded symbolic checking of the real code. For FuelConverter (publish transient limit, then solve at an adversarial symbolic demand), Generator, ElectricDrivetrain, ReversibleEnergyStorage (publish SOC-dependent limits, then solve) and for whole conventional / battery-electric locomotive steps, z3 decides for every pre-state, rating, ramp lag, SOC window, demand and dt: an accepted step keeps shaft power within rating and within the limit just published (up to the code's own TOL), the published engine limit never exceeds max(previous shaft power + rating/lag*dt, floor) nor the rating, generator/drivetrain/battery powers are within ratings and published charge/discharge limits, published limits lie in [-aux, rating], the battery limits are exactly the linear derating ramps, an over-limit demand is rejected, and SOC stays inside [min_soc, max_soc] up to the tolerance under the stated domain bound (one step cannot cross a derating ramp).",
  note="The SOC-window claim carries two explicit domain bounds (dt*P_max*(1+TOL) <= E*eta_lo*ramp_width); without them a single large step leaves the window, which is recorded in DESIGN.md as an observation, not claimed. 'Tractive power within the published locomotive limit' is enforced by the consist-level ensure! (covered by C10 assumptions) and is not separately claimed for a lone Locomotive. Maps 2-4 points." + M_NOTE,
  technique=M_TECH, design_ref="DESIGN.md section 4 (C09)"),
 "C10": dict(
  text="Bounded symbolic checking of the real code. Engine M executes the MIR of PowerDistributionControlType::solve_positive_traction / solve_negative_traction (RESGreedy and Proportional, incl. get_pwr_regen_vec and the shared solve_negative_traction) for every enumerated composition of conventional and battery-electric units with symbolic per-unit published limits, drivetrain ratings, regen limits and a symbolic demand between full dynamic braking and full traction. z3 decides: assignments sum to the demand, each unit's traction <= its published limit, each unit's braking <= its drivetrain rating, signs agree with the demand, regeneration only on battery units and within their regen limit when regen suffices, RESGreedy's fuel units deliver exactly the deficit, the policy never returns Err and its internal assert cannot fire.",
  note="Compositions: quick CB, BC, CC, BB, CBC; thorough all mixes up to 3 units plus CBCB (8-unit consists are outside the bound; the code is uniform in the unit index). Consist aggregates (sums of unit limits, deficits) enter as assumptions written from Consist::set_cur_pwr_max_out / solve_energy_consumption; published per-unit limits are assumed non-negative." + M_NOTE,
  technique=M_TECH, design_ref="DESIGN.md section 4 (C10)"),
 "C08": dict(
  text="Bounded symbolic checking of the real code. Engine M executes the rustc MIR of FuelConverter::solve_energy_consumption, Generator::set_pwr_in_req, ElectricDrivetrain::set_pwr_in_req, ReversibleEnergyStorage::solve_energy_consumption, utils::interp1d and utils::interp3d path by path and z3 decides, for every pre-state, demand, time step, efficiency-map value and engine_on flag inside the stated map sizes, that eta is in (0,1], loss >= 0, output <= input in the direction of flow, dynamic braking is zero unless demanded, cumulative fuel/loss/dyn-brake energies do not decrease and an engine-off step burns no fuel. One step from an arbitrary state is an inductive step, so it covers histories of any length.",
  note="f64 is modelled as exact reals (NaN/inf excluded by assumption; every division's divisor is separately proved non-zero on accepted paths); rounding is outside the claim. Map sizes: 2-5 points (1-D), up to 2x2x2 / 1x3x3 (3-D). In the RES step interp3d is replaced by its contract (result within the value range), which is proved by its own harness on symbolic grids. Locomotive::set_pwr_aux(engine_on) is covered by C01/C09 harnesses at locomotive level. Trusted base: rustc MIR dump, the mir2smt interpreter (validated per harness against the real build on sampled vectors), z3.",
  technique="symbolic execution of rustc MIR + z3 (SMT over reals), bounded; counterexamples replayed on the native build",
  design_ref="DESIGN.md section 4 (C08)"),
}

checks = []
for pid, c in CLAIMED.items():
    checks.append({
        "property_id": pid,
        "quick_cmd": f"/verif/bin/check {pid} quick",
        "thorough_cmd": f"/verif/bin/check {pid} thorough",
        "evidence_file": f"/verif/evidence/{pid}.json",
        "replay_cmd_template": "/verif/bin/replay {path}",
        "engine": "mir2smt+kani",
        "level_claimed": {"category": "model_checking", "text": c["text"], "design_ref": c["design_ref"]},
        "level_note": c["note"],
        "technique": c["technique"],
    })
NA = {
 "C04": "safety invariant over every interleaving of advance/rewind/re-route inside run_dispatch: needs BinaryHeap/IntSet/drain-heavy whole-run execution with no documented representation invariant; out of reach of bounded symbolic execution here (DESIGN.md section 5)",
 "C15": "construction is a set of complete SpeedLimitTrainSim runs (thousands of sqrt steps) plus graph rewriting that depends on them; a harness of the solver-friendly tail would check my copy of inline code (DESIGN.md section 5)",
 "C17": "subject is three parser/printer stacks (serde_yaml, serde_json, bincode): input-length loops, float formatting, heap token trees; and a whole-run checkpoint equality (DESIGN.md section 5)",
 "C18": "thread scheduling and per-process hash seeds: Kani does not model threads and the engine must stub RandomState to a constant, i.e. the phenomenon is removed by the encoding (DESIGN.md section 5)",
}
na = []
for p in props:
    if p["id"] in CLAIMED:
        continue
    na.append({"property_id": p["id"], "reason": NA.get(p["id"], "check not built yet in this round (planned: DESIGN.md section 4); not claimed until its harnesses run clean")})
m = {
 "version": 1,
 "setup_cmd": "/verif/bin/setup",
 "hooks": {
  "guard": "cfg(any(kani, nrel_altrios_verif))",
  "enable": "cargo kani sets cfg(kani); the native replay/validation runner is built with RUSTFLAGS='--cfg nrel_altrios_verif'; both need NREL_ALTRIOS_VERIF_DIR=/verif (the hook include!s /verif/hooks/lib.rs)",
  "baseline_off_cmd": "cd /repo/rust && cargo test --workspace --no-fail-fast --offline",
  "source_commits": hook_commits,
  "add_only": True,
 },
 "engines": [
  {"name": "mir2smt (engine M)", "path": "/verif/mir2smt", "serves_properties": sorted(CLAIMED), "kind_free_text": "path-wise symbolic executor for the rustc MIR dump of altrios-core, z3 back end (f64 as exact reals), native replay + translator validation against the real build"},
  {"name": "kani (engine K)", "path": "/verif/hooks", "serves_properties": [], "kind_free_text": "Kani 0.68 / CBMC 6.11 proof harnesses compiled into the crate through the guarded hook"},
 ],
 "checks": checks,
 "not_applicable": na,
 "notes": "exit codes of bin/check: 0 held, 1 VIOLATION (reproduced natively), 2 counterexample not reproduced, 3 inconclusive. Known findings: /verif/known_findings.json.",
}
json.dump(m, open(os.path.join(VERIF, "MANIFEST.json"), "w"), indent=1)
print("claimed:", sorted(CLAIMED), "n/a:", [x["property_id"] for x in na])
