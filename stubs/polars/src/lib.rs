pub mod prelude {}
