pub mod prelude {} pub mod dsl { pub fn max_horizontal() {} }
