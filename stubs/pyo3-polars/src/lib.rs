pub struct PyDataFrame;
