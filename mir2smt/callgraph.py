"""list the external (non-crate) callees reachable from given roots"""
import sys, re, collections
sys.path.insert(0, '/verif/mir2smt')
import mir as M
m = M.load()
roots = sys.argv[1:]
seen=set(); ext=collections.Counter(); work=[m.find_fn(r) for r in roots]
closure_idx={}
for name,b in m.bodies.items():
    if b.kind=='fn' and '{closure#' in name:
        mm=re.search(r"\(_1: (?:&(?:mut )?)?(\{closure@[^{}]*\})", b.header)
        if mm: closure_idx[mm.group(1)]=name
while work:
    n=work.pop()
    if n in seen: continue
    seen.add(n)
    b=m.bodies[n]
    for bb in b.blocks:
        if '(cleanup)' in bb: continue
        for s in b.stmts(bb):
            if s[0]=='call':
                r=m.resolve(s[2])
                if r: work.append(r)
                else: ext[M.strip_generics(s[2])]+=1
            for sp in re.findall(r"\{closure@[^{}]*\}", b.blocks[bb][b.stmts(bb).index(s)]):
                if sp in closure_idx: work.append(closure_idx[sp])
print(len(seen),'crate bodies reached')
for n in sorted(seen): print('  BODY', n[:150])
for k,v in ext.most_common(): print(v,k)
