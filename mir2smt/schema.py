"""Struct / enum declarations read from the repository's source (field order, types, serde attrs).

Used to (a) build engine values and serde-JSON requests for the native runner from
one template, (b) map names <-> MIR field indices (cross-checked against the
names rustc prints in aggregate statements of the dump)."""
import os
import re

from mir import find_matching, split_top


class Field:
    __slots__ = ("name", "ty", "rename", "skip", "default", "skip_ser_if")

    def __init__(self, name, ty, rename=None, skip=False, default=False, skip_ser_if=False):
        self.name, self.ty, self.rename, self.skip, self.default, self.skip_ser_if = name, ty, rename, skip, default, skip_ser_if

    @property
    def json_name(self):
        return self.rename or self.name

    def __repr__(self):
        return f"{self.name}: {self.ty}"


class SrcSchema:
    def __init__(self, root=None):
        root = root or os.path.join(os.environ.get("NREL_ALTRIOS_REPO", "/repo"), "rust/altrios-core/src")
        self.structs = {}  # name -> [Field]
        self.all_structs = {}  # name -> [[Field]] (same name in several modules)
        self.qual = {}  # "<file stem>::<Name>" -> [Field]
        self.unit_structs = set()
        self.derives = {}  # name -> set of derive names
        self.enums = {}  # name -> [(variant, kind, payload types)]
        for d, _, files in os.walk(root):
            for fn in files:
                if fn.endswith(".rs"):
                    stem = fn[:-3] if fn != "mod.rs" else os.path.basename(d)
                    self._scan(open(os.path.join(d, fn)).read(), stem)
        # generated *HistoryVec structs: same fields, each Vec<T>
        for name in list(self.structs):
            if "HistoryVec" in self.derives.get(name, ()):
                self.structs[name + "HistoryVec"] = [Field(f.name, f"Vec<{f.ty}>") for f in self.structs[name]]

    def add_wrapper(self, name, fields):
        """harness-defined struct bundling the objects one call touches (mirrored by a serde struct in the hook file)"""
        self.structs[name] = [Field(n, t) for (n, t) in fields]
        self.wrappers = getattr(self, "wrappers", {})
        self.wrappers[name] = [n for (n, _) in fields]

    def lookup(self, ty):
        """fields of a struct type given as written in source ('path_res::Strap', 'Strap', 'si::Mass' -> None)"""
        t = re.sub(r"<.*>$", "", ty.strip())
        segs = t.split("::")
        if len(segs) >= 2 and "::".join(segs[-2:]) in self.qual:
            return self.qual["::".join(segs[-2:])]
        return self.structs.get(segs[-1])

    def _scan(self, src, stem=""):
        src_nc = re.sub(r"//[^\n]*", "", src)
        for m in re.finditer(r"\bstruct\s+(\w+)\s*(?:<[^>{]*>)?\s*\{", src_nc):
            name = m.group(1)
            start = m.end() - 1
            try:
                end = find_matching(src_nc, start)
            except ValueError:
                continue
            body = src_nc[start + 1 : end]
            fields = []
            for part in split_top(body):
                attrs = re.findall(r"#\[(.*?)\]", part, flags=re.S)
                decl = re.sub(r"#\[.*?\]", "", part, flags=re.S).strip()
                mm = re.match(r"^(?:pub(?:\([^)]*\))?\s+)?(\w+)\s*:\s*(.*)$", decl, flags=re.S)
                if not mm:
                    continue
                f = Field(mm.group(1), re.sub(r"\s+", " ", mm.group(2).strip()))
                for a in attrs:
                    if a.startswith("serde"):
                        r = re.search(r'rename\s*=\s*"([^"]+)"', a)
                        if r:
                            f.rename = r.group(1)
                        if re.search(r"\bskip\b(?!_)", a):
                            f.skip = True
                        if re.search(r"\bdefault\b", a):
                            f.default = True
                        if "skip_serializing_if" in a:
                            f.skip_ser_if = True
                fields.append(f)
            # derives: look back a little for #[derive(..)]
            head = src_nc[max(0, m.start() - 3000) : m.start()]
            # only the attribute block immediately preceding
            blk = re.findall(r"#\[derive\(([^)]*)\)\]", head[head.rfind("\n}\n") + 1 if "\n}\n" in head else 0 :])
            ds = set()
            for b in blk[-2:]:
                ds |= {x.strip().split("::")[-1] for x in b.split(",")}
            self.all_structs.setdefault(name, []).append(fields)
            self.qual.setdefault(f"{stem}::{name}", fields)
            self.structs.setdefault(name, fields)
            self.derives.setdefault(name, ds)
        for m in re.finditer(r"\bstruct\s+(\w+)\s*;", src_nc):
            self.unit_structs.add(m.group(1))
            self.structs.setdefault(m.group(1), [])
            self.all_structs.setdefault(m.group(1), []).append([])
            self.derives.setdefault(m.group(1), set())
        for m in re.finditer(r"\benum\s+(\w+)\s*(?:<[^>{]*>)?\s*\{", src_nc):
            name = m.group(1)
            start = m.end() - 1
            try:
                end = find_matching(src_nc, start)
            except ValueError:
                continue
            body = re.sub(r"#\[.*?\]", "", src_nc[start + 1 : end], flags=re.S)
            vs = []
            for part in split_top(body):
                mm = re.match(r"^\s*(\w+)\s*(\(.*\)|\{.*\})?", part.strip(), flags=re.S)
                if mm:
                    pay = mm.group(2)
                    if pay is None:
                        vs.append((mm.group(1), "unit", []))
                    elif pay.startswith("("):
                        vs.append((mm.group(1), "tuple", split_top(pay[1:-1])))
                    else:
                        vs.append((mm.group(1), "struct", split_top(pay[1:-1])))
            self.enums.setdefault(name, vs)

    def fields(self, ty):
        return self.structs[ty]

    def reconcile(self, mir_fields):
        """pick, for names declared in several modules, the declaration whose field list matches the MIR's;
        returns the list of structs whose source order disagrees with the MIR (should be empty)"""
        bad = []
        for ty, cands in self.all_structs.items():
            mf = mir_fields.get(ty)
            if mf is None:
                continue
            ok = [c for c in cands if [f.name for f in c] == mf]
            if ok:
                self.structs[ty] = ok[0]
            elif len(cands) == 1:
                bad.append(ty)
        return bad

    def field(self, ty, name):
        for f in self.structs[ty]:
            if f.name == name:
                return f
        raise KeyError(f"{ty}.{name}")


def base_type(ty):
    """'Option<si::Mass>' -> ('Option', 'si::Mass'); 'Vec<f64>' -> ('Vec','f64'); else (None, ty)"""
    ty = ty.strip()
    m = re.match(r"^(?:std::collections::)?HashMap\s*<(.*)>$", ty, flags=re.S)
    if m:
        return "HashMap", m.group(1).strip()
    m = re.match(r"^(Option|Vec|Box)\s*<(.*)>$", ty, flags=re.S)
    if m:
        return m.group(1), m.group(2).strip()
    m = re.match(r"^\[(.*);\s*(\w+)\]$", ty)
    if m:
        return "Array", m.group(1).strip()
    return None, ty


def last_seg(ty):
    return re.sub(r"<.*>$", "", ty.strip()).split("::")[-1]
