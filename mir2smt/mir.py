"""Front end of engine M: parse the `-Zunpretty=mir` dump of altrios-core.

The dump is text; one item per `fn`/`const`/`static` header, one statement per
line inside `bbN: { ... }` blocks.  Statements are parsed lazily into small
tuples (see parse_stmt) and cached per body.
"""
import os
import pickle
import re
import hashlib

# ---------------------------------------------------------------- scanning helpers

OPEN = "([{<"
CLOSE = ")]}>"
MATCH = {")": "(", "]": "[", "}": "{", ">": "<"}


def skip_string(s, i):
    """s[i] is a quote char (\" or '); return index just past the literal."""
    q = s[i]
    i += 1
    n = len(s)
    while i < n:
        c = s[i]
        if c == "\\":
            i += 2
            continue
        if c == q:
            return i + 1
        i += 1
    return n


def is_char_lit(s, i):
    # a ' that starts a char literal rather than a lifetime ('a, '_, 'de)
    if s[i] != "'":
        return False
    if i + 2 < len(s) and s[i + 1] == "\\":
        return True
    return i + 2 < len(s) and s[i + 2] == "'"


def split_top(s, sep=","):
    """split s at top-level occurrences of sep (nesting: ()[]{}<>, string literals)"""
    out = []
    depth = 0
    i = 0
    start = 0
    n = len(s)
    while i < n:
        c = s[i]
        if c == '"' or (c == "'" and is_char_lit(s, i)):
            i = skip_string(s, i)
            continue
        if c in "([{":
            depth += 1
        elif c in ")]}":
            depth -= 1
        elif c == "<":
            # generic bracket only if it looks like one (not a comparison; MIR has no infix <)
            depth += 1
        elif c == ">":
            if i > 0 and s[i - 1] in "-=":
                pass
            else:
                depth -= 1
        elif c == sep and depth == 0:
            out.append(s[start:i].strip())
            start = i + 1
        i += 1
    last = s[start:].strip()
    if last:
        out.append(last)
    return out


def find_matching(s, i):
    """s[i] is an opening bracket; return index of its matching close."""
    depth = 0
    n = len(s)
    while i < n:
        c = s[i]
        if c == '"' or (c == "'" and is_char_lit(s, i)):
            i = skip_string(s, i)
            continue
        if c in "([{":
            depth += 1
        elif c in ")]}":
            depth -= 1
            if depth == 0:
                return i
        elif c == "<":
            depth += 1
        elif c == ">":
            if not (i > 0 and s[i - 1] in "-="):
                depth -= 1
                if depth == 0:
                    return i
        i += 1
    raise ValueError("unbalanced: " + s[:200])


def strip_generics(s):
    """remove every ::<...> and <...> generic argument list, keep `<T as Trait>` heads intact
    only at the very start (handled by caller)."""
    out = []
    i = 0
    n = len(s)
    while i < n:
        c = s[i]
        if c == "<":
            j = find_matching(s, i)
            # drop preceding '::' if turbofish
            if out and "".join(out).endswith("::"):
                out = list("".join(out)[:-2])
            i = j + 1
            continue
        out.append(c)
        i += 1
    return "".join(out)


# ---------------------------------------------------------------- places / operands


class Place:
    __slots__ = ("local", "proj")

    def __init__(self, local, proj):
        self.local = local
        self.proj = proj  # tuple of ('deref',) ('field', n) ('index', local) ('cindex', n, from_end) ('downcast', name) ('subslice', a, b, from_end)

    def __repr__(self):
        return f"Place({self.local},{self.proj})"


def parse_place(s):
    p, i = _parse_place(s, 0)
    if s[i:].strip():
        raise ValueError(f"trailing in place: {s!r} at {i}")
    return p


def _parse_place(s, i):
    n = len(s)
    while i < n and s[i] == " ":
        i += 1
    if s[i] == "_":
        j = i + 1
        while j < n and s[j].isdigit():
            j += 1
        local = s[i:j]
        proj = ()
        i = j
    elif s[i] == "(":
        if s[i + 1] == "*":
            inner, j = _parse_place(s, i + 2)
            assert s[j] == ")", s
            local, proj = inner.local, inner.proj + (("deref",),)
            i = j + 1
        else:
            inner, j = _parse_place(s, i + 1)
            if s[j] == ".":
                k = j + 1
                while s[k].isdigit():
                    k += 1
                fld = int(s[j + 1 : k])
                assert s[k] == ":", s
                # skip the type up to the matching ')'
                close = find_matching(s, i)
                local, proj = inner.local, inner.proj + (("field", fld),)
                i = close + 1
            elif s[j : j + 4] == " as ":
                close = find_matching(s, i)
                name = s[j + 4 : close].strip()
                local, proj = inner.local, inner.proj + (("downcast", name),)
                i = close + 1
            else:
                raise ValueError("place: " + s)
    else:
        raise ValueError("place: " + s)
    # suffixes
    while i < n and s[i] == "[":
        close = find_matching(s, i)
        inner = s[i + 1 : close].strip()
        m = re.match(r"^(_\d+)$", inner)
        if m:
            proj = proj + (("index", m.group(1)),)
        else:
            m = re.match(r"^(-?)(\d+) of (\d+)$", inner)
            if m:
                proj = proj + (("cindex", int(m.group(2)), m.group(1) == "-"),)
            else:
                m = re.match(r"^(\d+):(-?)(\d+)$", inner)
                if m:
                    proj = proj + (("subslice", int(m.group(1)), int(m.group(3)), m.group(2) == "-"),)
                else:
                    raise ValueError("index proj: " + s)
        i = close + 1
    return Place(local, proj), i


def parse_operand(s):
    s = s.strip()
    if s.startswith("no_retag "):
        s = s[9:]
    if s.startswith("copy "):
        return ("copy", parse_place(s[5:]))
    if s.startswith("move "):
        return ("move", parse_place(s[5:]))
    if s.startswith("const "):
        return ("const", s[6:].strip())
    # bare path: a fn item / tuple-struct constructor used as a value
    if re.match(r"^[<A-Za-z_]", s):
        return ("const", "ZeroSized: fn {" + s + "}")
    raise ValueError("operand: " + s)


BINOPS = {
    "Add", "Sub", "Mul", "Div", "Rem", "Eq", "Ne", "Lt", "Le", "Gt", "Ge", "BitAnd", "BitOr", "BitXor",
    "Shl", "Shr", "AddWithOverflow", "SubWithOverflow", "MulWithOverflow", "Offset", "Cmp",
    "AddUnchecked", "SubUnchecked", "MulUnchecked", "ShlUnchecked", "ShrUnchecked",
}
UNOPS = {"Not", "Neg", "PtrMetadata"}


def parse_rvalue(s):
    s = s.strip()
    if s.startswith("no_retag "):
        s = s[9:]
    if s.startswith(("copy ", "move ", "const ")):
        # maybe a cast: `OP as TYPE (Kind)`
        m = re.match(r"^(.*) as (.*) \((\w+(?:\([^)]*\))?(?:, \w+)?)\)$", s)
        if m and not s.startswith("const") or (m and _looks_cast(s)):
            return ("cast", parse_operand(m.group(1)), m.group(2), m.group(3))
        return ("use", parse_operand(s))
    if s.startswith("&"):
        rest = s[1:]
        kind = "shared"
        for pre, k in (("raw const ", "raw"), ("raw mut ", "raw"), ("mut ", "mut"), ("fake shallow ", "shared"), ("fake ", "shared")):
            if rest.startswith(pre):
                rest = rest[len(pre):]
                kind = k
                break
        if rest.startswith("(fake) "):
            rest = rest[7:]
        return ("ref", parse_place(rest))
    m = re.match(r"^(\w+)\((.*)\)$", s)
    if m and m.group(1) in BINOPS:
        a, b = split_top(m.group(2))
        return ("binop", m.group(1), parse_operand(a), parse_operand(b))
    if m and m.group(1) in UNOPS:
        return ("unop", m.group(1), parse_operand(m.group(2)))
    if m and m.group(1) == "discriminant":
        return ("discriminant", parse_place(m.group(2)))
    if m and m.group(1) == "Len":
        return ("len", parse_place(m.group(2)))
    if m and m.group(1) == "CopyForDeref":
        return ("use", ("copy", parse_place(m.group(2))))
    if m and m.group(1) == "ShallowInitBox":
        a, _ = split_top(m.group(2))
        return ("use", parse_operand(a))
    # tuple aggregate
    if s.startswith("(") and find_matching(s, 0) == len(s) - 1:
        inner = s[1:-1].strip()
        parts = split_top(inner)
        if inner.endswith(","):
            pass
        return ("tuple", [parse_operand(p) for p in parts])
    if s.startswith("["):
        close = find_matching(s, 0)
        if close == len(s) - 1:
            inner = s[1:-1]
            semi = split_top(inner, ";")
            if len(semi) == 2:
                return ("repeat", parse_operand(semi[0]), semi[1])
            return ("array", [parse_operand(p) for p in split_top(inner)])
    # closure / coroutine aggregate
    if s.startswith("{closure@") or s.startswith("{coroutine@"):
        close = find_matching(s, 0)
        name = s[: close + 1]
        rest = s[close + 1 :].strip()
        caps = []
        if rest.startswith("{"):
            inner = rest[1 : find_matching(rest, 0)].strip()
            for part in split_top(inner):
                k, v = part.split(":", 1)
                caps.append((k.strip(), parse_operand(v)))
        return ("closure", name, caps)
    # struct / enum aggregates:  Path { f: op, .. } | Path(op, ..) | Path
    i = _path_end(s)
    path = s[:i].strip()
    rest = s[i:].strip()
    if rest == "":
        return ("adt", path, "unit", [])
    if rest.startswith("{"):
        inner = rest[1 : find_matching(rest, 0)].strip()
        fields = []
        for part in split_top(inner):
            k, v = part.split(":", 1)
            fields.append((k.strip(), parse_operand(v)))
        return ("adt", path, "named", fields)
    if rest.startswith("("):
        inner = rest[1 : find_matching(rest, 0)].strip()
        return ("adt", path, "tuple", [(None, parse_operand(p)) for p in split_top(inner)])
    raise ValueError("rvalue: " + s)


def _looks_cast(s):
    return bool(re.search(r" as [^()]* \((IntToInt|IntToFloat|FloatToInt|FloatToFloat|PtrToPtr|Transmute|PointerCoercion|PointerExposeProvenance|PointerWithExposedProvenance|FnPtrToPtr)", s))


def _path_end(s):
    """end of a (possibly generic) path at the start of s"""
    i = 0
    n = len(s)
    while i < n:
        c = s[i]
        if c == "<":
            i = find_matching(s, i) + 1
            continue
        if c in " ({":
            # allow ' as ' inside <..> only (already skipped)
            return i
        i += 1
    return n


# ---------------------------------------------------------------- statements / terminators


def parse_targets(s):
    """'[return: bb1, unwind continue]' or '[0: bb1, otherwise: bb2]' -> dict"""
    s = s.strip()
    assert s.startswith("[") and s.endswith("]"), s
    d = {}
    for part in split_top(s[1:-1]):
        if ":" in part:
            k, v = part.split(":", 1)
            d[k.strip()] = v.strip()
        else:
            d[part.strip()] = None
    return d


def parse_stmt(line):
    s = line.strip()
    if s.endswith(";"):
        s = s[:-1]
    if s in ("return", "unreachable", "resume", "nop", "abort", "terminate(cleanup)", "terminate(abi)"):
        return (s.split("(")[0],)
    if s.startswith(("StorageLive(", "StorageDead(", "FakeRead(", "PlaceMention(", "AscribeUserType(", "Retag(", "Coverage", "ConstEvalCounter", "BackwardIncompatibleDropHint", "Deinit(")):
        return ("nop",)
    if s.startswith("goto -> "):
        return ("goto", s[8:].strip())
    if s.startswith("switchInt("):
        close = find_matching(s, len("switchInt"))
        op = parse_operand(s[len("switchInt(") : close])
        t = parse_targets(s[close + 1 :].strip()[3:].strip())
        return ("switch", op, t)
    if s.startswith("drop("):
        close = find_matching(s, 4)
        t = parse_targets(s[close + 1 :].strip()[3:].strip())
        return ("drop", parse_place(s[5:close]), t["return"])
    if s.startswith("assert("):
        close = find_matching(s, 6)
        args = split_top(s[7:close])
        cond = args[0]
        neg = False
        if cond.startswith("!"):
            neg = True
            cond = cond[1:]
        t = parse_targets(s[close + 1 :].strip()[3:].strip())
        return ("assert", parse_operand(cond), neg, args[1] if len(args) > 1 else "", t["success"])
    if s.startswith("discriminant("):
        close = find_matching(s, len("discriminant"))
        rest = s[close + 1 :].strip()
        if rest.startswith("="):
            return ("setdisc", parse_place(s[len("discriminant(") : close]), int(rest[1:].strip()))
    if s.startswith("falseEdge") or s.startswith("falseUnwind"):
        m = re.search(r"(bb\d+)", s)
        return ("goto", m.group(1))
    # assignment or call
    eq = _find_assign(s)
    if eq < 0:
        raise ValueError("stmt: " + s)
    lhs = parse_place(s[:eq].strip())
    rhs = s[eq + 3 :].strip()
    # call terminator?
    arrow = _find_call_arrow(rhs)
    if arrow >= 0:
        call = rhs[:arrow].rstrip()
        tail = rhs[arrow + 4 :].strip()
        if tail.startswith("["):
            t = parse_targets(tail)
            ret = t.get("return")
        else:
            ret = None  # diverging
        assert call.endswith(")"), s
        # find '(' matching the last ')'
        op = _match_open_from_end(call)
        callee = call[:op].strip()
        args = [parse_operand(a) for a in split_top(call[op + 1 : -1])]
        return ("call", lhs, callee, args, ret)
    return ("assign", lhs, parse_rvalue(rhs))


def _find_assign(s):
    depth = 0
    i = 0
    n = len(s)
    while i < n - 2:
        c = s[i]
        if c in "([{<":
            depth += 1
        elif c in ")]}":
            depth -= 1
        elif c == ">" and not (i > 0 and s[i - 1] in "-="):
            depth -= 1
        elif depth == 0 and s[i : i + 3] == " = ":
            return i
        i += 1
    return -1


def _find_call_arrow(rhs):
    """index of top-level ' -> ' that follows a ')' (call terminator), else -1"""
    depth = 0
    i = 0
    n = len(rhs)
    while i < n:
        c = rhs[i]
        if c == '"' or (c == "'" and is_char_lit(rhs, i)):
            i = skip_string(rhs, i)
            continue
        if c in "([{":
            depth += 1
        elif c in ")]}":
            depth -= 1
        elif c == "<":
            depth += 1
        elif c == ">" and not (i > 0 and rhs[i - 1] in "-="):
            depth -= 1
        elif depth == 0 and rhs[i : i + 4] == " -> " and i > 0 and rhs[i - 1] == ")":
            return i
        i += 1
    return -1


def _match_open_from_end(call):
    # forward scan recording the index where the final top-level '(' opens
    depth = 0
    i = 0
    n = len(call)
    last_open = -1
    while i < n:
        c = call[i]
        if c == '"' or (c == "'" and is_char_lit(call, i)):
            i = skip_string(call, i)
            continue
        if c in "([{":
            if depth == 0 and c == "(":
                last_open = i
            depth += 1
        elif c in ")]}":
            depth -= 1
        elif c == "<":
            depth += 1
        elif c == ">" and not (i > 0 and call[i - 1] in "-="):
            depth -= 1
        i += 1
    return last_open


# ---------------------------------------------------------------- bodies


class Body:
    def __init__(self, kind, name, header, lines):
        self.kind = kind  # fn | const | static
        self.name = name
        self.header = header
        self.lines = lines
        self._blocks = None
        self._parsed = {}
        self._args = None
        self._types = None

    @property
    def args(self):
        if self._args is None:
            if self.kind != "fn":
                self._args = []
            else:
                i = len("fn ") + len(self.name)
                assert self.header[i] == "(", (self.name, self.header[:200])
                close = find_matching(self.header, i)
                self._args = [a.split(":", 1)[0].strip() for a in split_top(self.header[i + 1 : close])]
        return self._args

    @property
    def blocks(self):
        if self._blocks is None:
            self._blocks = {}
            cur = None
            for l in self.lines:
                m = re.match(r"^    (bb\d+)( \(cleanup\))?: \{$", l)
                if m:
                    cur = m.group(1)
                    self._blocks[cur] = []
                    continue
                if l.startswith("    }"):
                    cur = None
                    continue
                if cur is not None and l.startswith("        ") and l.strip():
                    self._blocks[cur].append(l.strip())
        return self._blocks

    def stmts(self, bb):
        p = self._parsed.get(bb)
        if p is None:
            p = [parse_stmt(l) for l in self.blocks[bb]]
            self._parsed[bb] = p
        return p

    @property
    def local_types(self):
        if self._types is None:
            t = {}
            for l in self.lines:
                m = re.match(r"^\s+let (?:mut )?(_\d+): (.*);$", l)
                if m:
                    t[m.group(1)] = m.group(2)
            if self.kind == "fn":
                i = len("fn ") + len(self.name)
                close = find_matching(self.header, i)
                for a in split_top(self.header[i + 1 : close]):
                    k, v = a.split(":", 1)
                    t[k.strip()] = v.strip()
            self._types = t
        return self._types


IMPL_RE = re.compile(r"<impl at ([^:>]+):(\d+):(\d+): (\d+):(\d+)>")


class Mir:
    def __init__(self, path, repo_src=None):
        self.path = path
        self.repo_src = repo_src or os.path.join(os.environ.get("NREL_ALTRIOS_REPO", "/repo"), "rust/altrios-core/src")
        txt = open(path).read()
        self.hash = hashlib.sha256(txt.encode()).hexdigest()[:16]
        self.bodies = {}
        self.simple_consts = {}
        self._parse_items(txt)
        self._src_cache = {}
        self._build_index()
        self._scan_schema(txt)

    # ------------------------------------------------------------ items
    def _parse_items(self, txt):
        lines = txt.split("\n")
        i = 0
        n = len(lines)
        while i < n:
            l = lines[i]
            if l.startswith(("fn ", "const ", "static ")):
                kind = l.split(" ", 1)[0]
                if l.endswith("{"):
                    j = i + 1
                    while j < n and lines[j] != "}":
                        j += 1
                    name = self._item_name(kind, l)
                    self.bodies[name] = Body(kind, name, l, lines[i + 1 : j])
                    i = j + 1
                    continue
                else:
                    # one-line const:  const NAME: TYPE = const VALUE;
                    if l.startswith("const ") and " = const " in l and l.endswith(";"):
                        nm = self._item_name("const", l)
                        self.simple_consts[nm] = l[l.rindex(" = const ") + 9 : -1]
            i += 1

    @staticmethod
    def _item_name(kind, header):
        s = header[len(kind) + 1 :]
        if kind == "static" and s.startswith("mut "):
            s = s[4:]
        # name ends at first top-level '(' (fn) or ':' followed by space (const)
        depth = 0
        i = 0
        n = len(s)
        while i < n:
            c = s[i]
            if c in "<[{":
                depth += 1
            elif c in "]}":
                depth -= 1
            elif c == ">" and not (i > 0 and s[i - 1] in "-="):
                depth -= 1
            elif depth == 0 and kind == "fn" and c == "(":
                return s[:i]
            elif depth == 0 and kind != "fn" and c == ":" and s[i + 1] == " ":
                return s[:i]
            i += 1
        return s

    # ------------------------------------------------------------ impl index
    def _src_lines(self, f):
        if f not in self._src_cache:
            try:
                self._src_cache[f] = open(f).read().split("\n")
            except OSError:
                self._src_cache[f] = []
        return self._src_cache[f]

    def impl_info(self, f, line, col, line2, col2):
        """(trait or None, type) for the impl whose span starts at f:line:col"""
        key = (f, line, col)
        if key in self._impl_cache:
            return self._impl_cache[key]
        L = self._src_lines(f)
        res = (None, None)
        if 0 < line <= len(L):
            text = L[line - 1][col - 1 :]
            # join following lines until '{' for multi-line headers
            k = line
            while "{" not in text and k < len(L) and k < line + 6:
                text += " " + L[k].strip()
                k += 1
            m = re.match(r"^(?:unsafe\s+)?impl\s*(<.*?>)?\s*(.*?)\s*(?:where\b.*)?\{", text)
            if m and text.startswith(("impl", "unsafe impl")):
                hdr = m.group(2)
                hdr_ng = strip_generics(hdr)
                if " for " in hdr_ng:
                    tr, ty = hdr_ng.split(" for ", 1)
                    ty = ty.strip()
                    amps = len(ty) - len(ty.lstrip("&"))
                    res = (tr.strip().split("::")[-1], "&" * amps + ty.lstrip("&").strip().split("::")[-1])
                else:
                    res = (None, hdr_ng.strip().split("::")[-1])
            else:
                # derive / attribute macro: the word at the span is the macro; the type is the next struct/enum
                word = re.match(r"^\w+", text)
                ty = None
                for kk in range(line - 1, min(len(L), line + 60)):
                    mm = re.match(r"^\s*(?:pub(?:\([^)]*\))?\s+)?(?:struct|enum)\s+(\w+)", L[kk])
                    if mm:
                        ty = mm.group(1)
                        break
                res = ("@" + (word.group(0) if word else "?"), ty)
        self._impl_cache[key] = res
        return res

    def _build_index(self):
        self._impl_cache = {}
        self.by_suffix = {}  # last segment -> [names]
        self.methods = {}  # (Type, method) -> [(trait, name)]
        for name, b in self.bodies.items():
            if b.kind != "fn":
                continue
            m = IMPL_RE.search(name)
            if m:
                f, l1, c1, l2, c2 = m.group(1), int(m.group(2)), int(m.group(3)), int(m.group(4)), int(m.group(5))
                tr, ty = self.impl_info(f, l1, c1, l2, c2)
                if tr is not None and tr.startswith("@"):
                    # derive-generated impl: the span names the macro, the receiver type is in the signature
                    mh = re.search(r"\(_1: (&(?:mut )?)?([^,()]+?)(?:,|\))", b.header)
                    if mh:
                        try:
                            t1 = _type_last(mh.group(2))
                        except ValueError:
                            t1 = None
                        if t1 and t1[0].isupper():
                            ty = t1
                    else:
                        # no receiver (e.g. a derived `default()`): the generated type is the return type
                        mr = re.search(r"\(\) -> ([\w:]+)\s*\{?\s*$", b.header)
                        if mr and mr.group(1).split("::")[-1][0].isupper():
                            ty = mr.group(1).split("::")[-1]
                rest = name[m.end():]
                if rest.startswith("::"):
                    rest = rest[2:]
                self.methods.setdefault((ty, rest), []).append((tr, name))
                if ty and ty.startswith("&"):
                    self.methods.setdefault((ty.lstrip("&"), rest), []).append((tr, name))
            else:
                last = name.split("::")[-1]
                self.by_suffix.setdefault(last, []).append(name)
                # trait default methods look like  traits::Mass::mass  (Trait, method)
                segs = name.split("::")
                if len(segs) >= 2:
                    self.methods.setdefault((segs[-2], segs[-1]), []).append((None, name))

    # ------------------------------------------------------------ schema (field names, enums)
    def _scan_schema(self, txt):
        self.struct_fields = {}
        self.struct_fields_all = {}
        for m in re.finditer(r" = ([A-Za-z_][\w:]*?)(?:::<[^{}]*?>)? \{ ((?:\w+: (?:move|copy|const) [^{}]*?)) \};\n", txt):
            path = m.group(1)
            tyname = path.split("::")[-1]
            body = m.group(2)
            names = [p.split(":", 1)[0].strip() for p in split_top(body)]
            prev = self.struct_fields.get(tyname)
            if prev is None or len(names) > len(prev):
                self.struct_fields[tyname] = names
            if names not in self.struct_fields_all.setdefault(tyname, []):
                self.struct_fields_all[tyname].append(names)
        # enums from source
        self.enum_discr = {}
        self.enums = {
            "Option": ["None", "Some"],
            "Result": ["Ok", "Err"],
            "ControlFlow": ["Continue", "Break"],
        }
        for root, _, files in os.walk(self.repo_src):
            for fn in files:
                if not fn.endswith(".rs"):
                    continue
                src = open(os.path.join(root, fn)).read()
                for m in re.finditer(r"\benum\s+(\w+)\s*(?:<[^>]*>)?\s*\{", src):
                    name = m.group(1)
                    start = m.end() - 1
                    try:
                        end = find_matching(src, start)
                    except ValueError:
                        continue
                    body = src[start + 1 : end]
                    body = re.sub(r"//[^\n]*", "", body)
                    body = re.sub(r"#\[[^\]]*\]", "", body, flags=re.S)
                    vs = []
                    ds = []
                    nxt = 0
                    for part in split_top(body):
                        mm = re.match(r"^\s*(\w+)", part)
                        if mm:
                            vs.append(mm.group(1))
                            md = re.match(r"^\s*\w+\s*=\s*(-?\d+)\s*$", part)
                            if md:
                                nxt = int(md.group(1))
                            ds.append(nxt)
                            nxt += 1
                    if name not in self.enums:
                        self.enums[name] = vs
                        self.enum_discr[name] = ds

    def field_index(self, ty, name, nfields=None):
        """index of a named field; same-named structs of different modules are told apart by arity + name"""
        cands = self.struct_fields_all.get(ty) or ([self.struct_fields[ty]] if ty in self.struct_fields else [])
        for names in cands:
            if (nfields is None or len(names) == nfields) and name in names:
                return names.index(name)
        raise KeyError(f"{ty}.{name}")

    # ------------------------------------------------------------ call resolution
    def resolve(self, callee):
        """Return the body name for a call-site callee string, or None."""
        c = callee.strip()
        # closure call sugar is handled by the engine
        if c.startswith("<"):
            close = find_matching(c, 0)
            inner = c[1:close]
            rest = strip_generics(c[close + 1 :])
            if rest.startswith("::"):
                rest = rest[2:]
            if " as " in inner:
                # split at top-level ' as '
                parts = _split_as(inner)
                ty = _type_last(parts[0])
                tr = _type_last(parts[1]) if len(parts) > 1 else None
            else:
                parts = [inner]
                ty, tr = _type_last(inner), None
            raw0 = parts[0].strip()
            amps = 0
            while raw0.startswith("&"):
                amps += 1
                raw0 = raw0[1:].strip()
                if raw0.startswith("mut "):
                    raw0 = raw0[4:]
            cands = self.methods.get((ty, rest), [])
            if len(cands) > 1:
                # `impl Trait for X` vs `impl Trait for &X`: the impl whose Self has the same reference depth
                def self_depth(n):
                    mi = IMPL_RE.search(n)
                    if not mi:
                        return 0
                    _, ity = self.impl_info(mi.group(1), int(mi.group(2)), int(mi.group(3)), int(mi.group(4)), int(mi.group(5)))
                    return len(ity) - len(ity.lstrip("&")) if ity else 0
                same = [(t, n) for (t, n) in cands if self_depth(n) == amps]
                if same:
                    cands = same
            if not cands and ty.startswith("["):
                cands = self.methods.get(("[T]", rest), [])  # blanket impl over slices
            if not cands and tr is not None:
                cands = [(t, n) for (t, n) in self.methods.get(("T", rest), []) if t == tr]  # blanket `impl<T: ..> Trait for T`
            if len(cands) > 1:
                segs_t = strip_generics(parts[0].strip().lstrip("&").replace("mut ", "")).split("::")
                if len(segs_t) >= 2:
                    modp = segs_t[-2]
                    narrowed = [(t, n) for (t, n) in cands if re.search(r"(^|::)" + re.escape(modp) + r"::<impl at ", n) or re.search(r"/" + re.escape(modp) + r"\.rs:", n)]
                    if narrowed:
                        cands = narrowed
            if tr is not None:
                exact = [n for (t, n) in cands if t == tr]
                if exact:
                    return exact[0]
                # trait default method body  e.g. traits::Mass::mass
                dflt = [n for (t, n) in self.methods.get((tr, rest), []) if t is None]
                if dflt and not cands:
                    return dflt[0]
                derived = [n for (t, n) in cands if t and t.startswith("@")]
                if len(derived) == 1:
                    return derived[0]
                if len(derived) > 1:
                    for (t, n) in cands:
                        if t == "@" + tr:
                            return n
                if dflt:
                    return dflt[0]
                if cands:
                    return cands[0][1]
                return None
            if len(cands) >= 1:
                inh = [n for (t, n) in cands if t is None]
                return (inh or [cands[0][1]])[0]
            return None
        c = strip_generics(c)
        segs = c.split("::")
        if len(segs) >= 2:
            cands = self.methods.get((segs[-2], segs[-1]), [])
            if len(cands) > 1 and len(segs) >= 3:
                # same type name in several modules (kind::bearing::Basic, kind::rolling::Basic, ...): use the module path
                modp = segs[-3]
                narrowed = [(t, n) for (t, n) in cands if re.search(r"(^|::)" + re.escape(modp) + r"::<impl at ", n) or re.search(r"/" + re.escape(modp) + r"\.rs:", n)]
                if narrowed:
                    cands = narrowed
            inh = [n for (t, n) in cands if t is None]
            if inh:
                return inh[0]
            if len(cands) == 1:
                return cands[0][1]
            if len(cands) > 1:
                # ambiguous derive-generated methods: prefer non-derive, else first
                return cands[0][1]
        names = self.by_suffix.get(segs[-1], [])
        if len(names) == 1 and len(segs) == 1:
            return names[0]
        best = [n for n in names if n == c or n.endswith("::" + c) or c.endswith("::" + n) or c.endswith(n)]
        if len(best) >= 1:
            best.sort(key=len, reverse=True)
            return best[0]
        return None

    def find_fn(self, pattern):
        """harness-side lookup: 'Type::method' or 'module::func' -> body name (must be unique)"""
        r = self.resolve(pattern)
        if r is None:
            raise KeyError("no MIR body for " + pattern)
        return r


def _split_as(inner):
    depth = 0
    i = 0
    n = len(inner)
    while i < n:
        c = inner[i]
        if c in "([{<":
            depth += 1
        elif c in ")]}":
            depth -= 1
        elif c == ">" and not (i > 0 and inner[i - 1] in "-="):
            depth -= 1
        elif depth == 0 and inner[i : i + 4] == " as ":
            return [inner[:i], inner[i + 4 :]]
        i += 1
    return [inner]


def _type_last(t):
    t = t.strip()
    while t.startswith("&"):
        t = t[1:].strip()
        if t.startswith("mut "):
            t = t[4:]
        if t.startswith("'"):
            t = t.split(" ", 1)[1] if " " in t else t
    if t.startswith("dyn "):
        t = t[4:]
    if t.startswith("["):
        return "[" + _type_last(t[1 : find_matching(t, 0)].split(";")[0]) + "]"
    t = strip_generics(t)
    return t.split("::")[-1].strip()


def load(path="/verif/build/mir.txt"):
    cache = path + ".pickle"
    st = os.stat(path)
    key = (st.st_mtime_ns, st.st_size, os.stat(__file__).st_mtime_ns)
    if os.path.exists(cache):
        try:
            k, obj = pickle.load(open(cache, "rb"))
            if k == key:
                return obj
        except Exception:
            pass
    obj = Mir(path)
    try:
        pickle.dump((key, obj), open(cache, "wb"))
    except Exception:
        pass
    return obj


if __name__ == "__main__":
    import sys, time
    t = time.time()
    m = load(sys.argv[1] if len(sys.argv) > 1 else "/verif/build/mir.txt")
    print(len(m.bodies), "bodies", round(time.time() - t, 2), "s")
    bad = 0
    tot = 0
    for name, b in m.bodies.items():
        for bb in b.blocks:
            for l in b.blocks[bb]:
                tot += 1
                try:
                    parse_stmt(l)
                except Exception as e:
                    bad += 1
                    if bad < 30:
                        print("PARSE FAIL", type(e).__name__, str(e)[:100], "|", l[:200])
    print(tot, "stmts", bad, "failed", round(time.time() - t, 2), "s")
