"""Value model of engine M (immutable, structurally shared)."""
from fractions import Fraction
import z3


class Unsupported(Exception):
    """The engine met something it has no model for: the run is inconclusive."""


class Struct:
    __slots__ = ("ty", "fields")

    def __init__(self, ty, fields):
        self.ty = ty
        self.fields = tuple(fields)

    def __repr__(self):
        return f"{self.ty}{{{', '.join(map(repr, self.fields))}}}"


class Enum:
    __slots__ = ("ty", "variant", "fields")

    def __init__(self, ty, variant, fields=()):
        self.ty = ty
        self.variant = variant  # int index
        self.fields = tuple(fields)

    def __repr__(self):
        return f"{self.ty}#{self.variant}({', '.join(map(repr, self.fields))})"


class Seq:
    """Vec / array / slice storage, concrete length (ety: element type name when known, for trait dispatch on empty vectors)"""
    __slots__ = ("elems", "ety")

    def __init__(self, elems, ety=None):
        self.elems = tuple(elems)
        self.ety = ety
        if ety is None and self.elems and isinstance(self.elems[0], (Struct, Enum)):
            self.ety = self.elems[0].ty

    def __repr__(self):
        return f"[{', '.join(map(repr, self.elems))}]"


class Ptr:
    __slots__ = ("root", "path", "win")

    def __init__(self, root, path=(), win=None):
        self.root = root
        self.path = tuple(path)
        self.win = win  # (start, len) for sub-slices

    def __repr__(self):
        return f"&{self.root}{list(self.path)}{self.win or ''}"

    def key(self):
        return (self.root, self.path, self.win)


class Opaque:
    __slots__ = ("tag",)

    def __init__(self, tag):
        self.tag = tag

    def __repr__(self):
        return f"<{self.tag}>"


class FnItem:
    __slots__ = ("path",)

    def __init__(self, path):
        self.path = path

    def __repr__(self):
        return f"fn {self.path}"


class Closure:
    __slots__ = ("span", "fields")

    def __init__(self, span, fields):
        self.span = span
        self.fields = tuple(fields)

    def __repr__(self):
        return f"closure@{self.span.split('/')[-1]}{list(self.fields)}"


class IterV:
    """iterator adaptor state. kind-specific payload in .d (a tuple)"""
    __slots__ = ("kind", "d")

    def __init__(self, kind, *d):
        self.kind = kind
        self.d = tuple(d)

    def __repr__(self):
        return f"Iter.{self.kind}{self.d}"


class UninitT:
    def __repr__(self):
        return "UNINIT"


UNINIT = UninitT()
UNIT = Struct("()", ())

# ---------------------------------------------------------------- scalars


def is_z3(v):
    return isinstance(v, z3.ExprRef)


def is_scalar(v):
    return isinstance(v, (bool, int, float, Fraction)) or is_z3(v)


def is_conc(v):
    return isinstance(v, (bool, int, float, Fraction))


def to_z3(v):
    if is_z3(v):
        return v
    if isinstance(v, bool):
        return z3.BoolVal(v)
    if isinstance(v, int):
        return z3.IntVal(v)
    if isinstance(v, Fraction):
        return z3.RealVal(v)
    if isinstance(v, float):
        if v != v or v in (float("inf"), float("-inf")):
            raise Unsupported("non-finite float constant in symbolic term")
        return z3.RealVal(Fraction(v))
    raise Unsupported(f"to_z3({v!r})")


def is_real(v):
    return isinstance(v, (Fraction, float)) or (is_z3(v) and v.sort().kind() == z3.Z3_REAL_SORT)


def is_int(v):
    return (isinstance(v, int) and not isinstance(v, bool)) or (is_z3(v) and v.sort().kind() == z3.Z3_INT_SORT)


def is_bool(v):
    return isinstance(v, bool) or (is_z3(v) and v.sort().kind() == z3.Z3_BOOL_SORT)
