"""Input templates: one description of an object -> engine value tree (symbolic leaves)
and serde-JSON for the native runner (model substituted), plus name-based accessors
over both, and polymorphic claim operators (z3 terms or python floats)."""
import math
from fractions import Fraction

import z3

from values import *  # noqa
from schema import base_type, last_seg

NUM_TYPES = {"f64", "f32"}
INT_TYPES = {"usize", "u8", "u16", "u32", "u64", "i8", "i16", "i32", "i64", "isize", "EstIdx"}


class Sym:
    """symbolic leaf"""
    __slots__ = ("name", "sort")

    def __init__(self, name, sort="real"):
        self.name = name
        self.sort = sort

    def __repr__(self):
        return f"Sym({self.name})"


class Variant:
    """enum value in a template"""
    def __init__(self, name, *payload):
        self.name = name
        self.payload = payload


class Raw:
    """engine-only value (not representable in JSON, e.g. serde(skip) fields)"""
    def __init__(self, v, json=None, has_json=False):
        self.v = v
        self.json = json
        self.has_json = has_json


def is_quantity(ty):
    return ty.startswith("si::") or ty in NUM_TYPES


class Builder:
    def __init__(self, h, schema):
        self.h = h
        self.schema = schema

    def leaf_sym(self, t):
        if t.name in getattr(self, "fixed", {}):
            return self.fixed[t.name]
        if t.sort == "real":
            return self.h.real(t.name)
        if t.sort == "int":
            return self.h.int(t.name)
        return self.h.bool(t.name)

    # ------------------------------------------------ engine values
    def value(self, ty, t):
        ty = ty.strip()
        if isinstance(t, Raw):
            return t.v
        wrap, inner = base_type(ty)
        if wrap == "Option":
            if t is None:
                return Enum("Option", 0, ())
            return Enum("Option", 1, [self.value(inner, t)])
        if wrap in ("Vec", "Array"):
            return Seq([self.value(inner, x) for x in t], ety=last_seg(inner))
        if wrap == "HashMap":
            from mir import split_top
            kt, vt = split_top(inner)
            return Struct("HashMap", [Seq([Struct("()", [self.value(kt, k), self.value(vt, v)]) for k, v in t.items()])])
        if wrap == "Box":
            # placeholder: the harness allocates the heap cell when the value is put into a state (hlib.Harness.put)
            return Struct("BoxInline", [self.value(inner, t)])
        name = last_seg(ty)
        if name == "LinkIdx" and not isinstance(t, dict):
            return Struct("LinkIdx", [self.value("u32", t)])
        if isinstance(t, Sym):
            return self.leaf_sym(t)
        if is_quantity(ty) or name in NUM_TYPES:
            if isinstance(t, bool):
                raise TypeError(f"bool for {ty}")
            if isinstance(t, float) and (t != t or t in (float("inf"), float("-inf"))):
                # special values: IEEE floats in the concrete interpreter, markers in the real-arithmetic engine
                if self.h.eng.mode == "float":
                    return t
                return Opaque("NaN") if t != t else Opaque("+inf" if t > 0 else "-inf")
            if self.h.eng.mode == "float":
                return float(t)
            return Fraction(t) if not isinstance(t, float) else Fraction(t)
        if name in INT_TYPES:
            return int(t)
        if name == "bool":
            return bool(t)
        if name == "String":
            return Opaque("S:" + t) if isinstance(t, str) and t else Opaque("String")
        if self.schema.lookup(ty) is not None:
            fs = self.schema.lookup(ty)
            if t is None:
                t = {}
            vals = []
            for f in fs:
                if f.name in t:
                    vals.append(self.value(f.ty, t[f.name]))
                elif last_seg(f.ty).endswith("HistoryVec"):
                    vals.append(self.empty_history(last_seg(f.ty)))
                else:
                    vals.append(UNINIT)
            for k in t:
                if k not in [f.name for f in fs]:
                    raise KeyError(f"{name} has no field {k}")
            return Struct(name, vals)
        if name in self.schema.enums:
            vs = self.schema.enums[name]
            names = [v[0] for v in vs]
            if isinstance(t, str):
                return Enum(name, names.index(t), ())
            idx = names.index(t.name)
            ptys = vs[idx][2]
            return Enum(name, idx, [self.value(pt, pv) for pt, pv in zip(ptys, t.payload)])
        raise Unsupported(f"template type {ty}")

    def empty_history(self, hty):
        fs = self.schema.structs[hty]
        return Struct(hty, [Seq(()) for _ in fs])

    # ------------------------------------------------ JSON for the native runner
    def json(self, ty, t, model):
        ty = ty.strip()
        if isinstance(t, Raw):
            if t.has_json:
                return t.json
            raise KeyError("raw without json")
        wrap, inner = base_type(ty)
        if wrap == "Option":
            return None if t is None else self.json(inner, t, model)
        if wrap in ("Vec", "Array"):
            return [self.json(inner, x, model) for x in t]
        if wrap == "HashMap":
            from mir import split_top
            kt, vt = split_top(inner)
            return {str(k): self.json(vt, v, model) for k, v in t.items()}
        if wrap == "Box":
            return self.json(inner, t, model)
        name = last_seg(ty)
        if isinstance(t, Sym):
            v = model[t.name] if t.name in model else getattr(self, "fixed", {})[t.name]
            if t.sort == "real":
                return float(v)
            return v
        if is_quantity(ty) or name in NUM_TYPES:
            if isinstance(t, float) and t != t:
                return "__NaN__"
            if isinstance(t, float) and t in (float("inf"), float("-inf")):
                return "__+inf__" if t > 0 else "__-inf__"
            return float(t)
        if name in INT_TYPES:
            return int(t)
        if name == "bool":
            return bool(t)
        if name == "String":
            return t if isinstance(t, str) else ""
        if name == "LinkIdx" and not isinstance(t, dict):
            return self.json("u32", t, model)
        if self.schema.lookup(ty) is not None:
            if not self.schema.lookup(ty):
                return None if name in self.schema.unit_structs else {}  # unit struct -> null, `struct X {}` -> {}
            out = {}
            t = t or {}
            for f in self.schema.lookup(ty):
                if f.skip:
                    continue
                if f.name not in t and last_seg(f.ty).endswith("HistoryVec") and self.schema.lookup(f.ty):
                    out[f.json_name] = {hf.json_name: [] for hf in self.schema.lookup(f.ty)}
                    continue
                if f.name in t:
                    if isinstance(t[f.name], Raw) and not t[f.name].has_json:
                        continue
                    out[f.json_name] = self.json(f.ty, t[f.name], model)
            return out
        if name in self.schema.enums:
            if isinstance(t, str):
                return t
            vs = self.schema.enums[name]
            idx = [v[0] for v in vs].index(t.name)
            ptys = vs[idx][2]
            if len(ptys) == 1:
                return {t.name: self.json(ptys[0], t.payload[0], model)}
            return {t.name: [self.json(pt, pv, model) for pt, pv in zip(ptys, t.payload)]}
        raise Unsupported(f"json type {ty}")


# ---------------------------------------------------------------- accessors


class VAcc:
    """accessor over an engine value (Struct tree)"""

    def __init__(self, h, v):
        self.h = h
        self.v = v

    def __getitem__(self, path):
        v = self.v
        for seg in path.split("."):
            v = self._step(v, seg)
        v = self._unbox(v)
        if isinstance(v, (Struct, Enum, Seq)) and not (isinstance(v, Enum) and v.ty == "Option"):
            return VAcc(self.h, v)
        if isinstance(v, Enum) and v.ty == "Option":
            return None if v.variant == 0 else (VAcc(self.h, v.fields[0]) if isinstance(v.fields[0], (Struct, Seq, Enum)) else v.fields[0])
        return v

    def _unbox(self, v):
        while isinstance(v, Struct) and v.ty in ("Box", "BoxInline"):
            if v.ty == "BoxInline":
                v = v.fields[0]
            else:
                p = v.fields[0]
                while isinstance(p, Struct):
                    p = p.fields[0]
                v = self.h.eng.load_ptr(self.h._cur_st, p)
        return v

    def _step(self, v, seg):
        v = self._unbox(v)
        if isinstance(v, Enum) and v.ty == "Option":
            if v.variant == 0:
                raise KeyError("None." + seg)
            v = self._unbox(v.fields[0])
        if isinstance(v, Enum):
            # enum payload: variant name or index
            if seg.isdigit():
                return v.fields[int(seg)]
            names = self.h.mir.enums[v.ty]
            if names[v.variant] != seg:
                raise KeyError(f"variant {names[v.variant]} != {seg}")
            return v.fields[0]
        if isinstance(v, Seq):
            return v.elems[int(seg)]
        if isinstance(v, Struct):
            if seg.isdigit():
                return v.fields[int(seg)]
            return v.fields[self.h.mir.field_index(v.ty, seg, len(v.fields))]
        raise KeyError(f"step {seg} on {v!r}")

    def len(self):
        return len(self.v.elems)

    def variant(self):
        return self.h.mir.enums[self.v.ty][self.v.variant]


class _DefaultState(dict):
    """a `*State` struct that serde skipped because it equals its Default (`skip_serializing_if = "EqDefault::eq_default"`):
    step counter 1, every quantity 0"""

    def __contains__(self, k):
        return True

    def __getitem__(self, k):
        return 1 if k == "i" else 0.0


class JAcc:
    """accessor over serde JSON produced by the native runner (or sent to it)"""

    def __init__(self, schema, ty, j):
        self.schema = schema
        self.ty = ty
        self.j = j

    def __getitem__(self, path):
        ty, j = self.ty, self.j
        for seg in path.split("."):
            ty, j = self._step(ty, j, seg)
        wrap, inner = base_type(ty)
        if wrap == "Option":
            if j is None:
                return None
            ty = inner
            wrap, inner = base_type(ty)
        if isinstance(j, (dict, list)):
            return JAcc(self.schema, ty, j)
        if isinstance(j, bool):
            return j
        if isinstance(j, int) and last_seg(ty) in INT_TYPES:
            return j
        if j is None:
            return float("nan")
        return float(j)

    def _step(self, ty, j, seg):
        wrap, inner = base_type(ty)
        while wrap == "Box":
            ty = inner
            wrap, inner = base_type(ty)
        if wrap == "Option":
            if j is None:
                raise KeyError("None." + seg)
            ty = inner
            wrap, inner = base_type(ty)
            while wrap == "Box":
                ty = inner
                wrap, inner = base_type(ty)
        if wrap in ("Vec", "Array"):
            return inner, j[int(seg)]
        name = last_seg(ty)
        if name in self.schema.enums:
            vs = self.schema.enums[name]
            for (vn, kind, ptys) in vs:
                if vn == seg:
                    if not (isinstance(j, dict) and seg in j):
                        raise KeyError(f"variant {seg}")
                    return ptys[0], j[seg]
            raise KeyError(seg)
        if self.schema.lookup(ty) is not None:
            f = [x for x in self.schema.lookup(ty) if x.name == seg]
            if not f:
                raise KeyError(f"{ty}.{seg}")
            f = f[0]
            if not isinstance(j, dict):
                # a newtype with a transparent (custom) serialization, e.g. LinkIdx -> plain integer
                if len(self.schema.lookup(ty)) == 1:
                    return f.ty, j
                raise KeyError(f"{name}.{seg}: native JSON is not an object")
            if f.json_name in j:
                return f.ty, j[f.json_name]
            if f.name in j:
                return f.ty, j[f.name]
            if last_seg(f.ty).endswith("State"):
                return f.ty, _DefaultState()
            raise KeyError(f"{name}.{seg} missing in native JSON")
        raise KeyError(f"step {seg} in {ty}")

    def len(self):
        return len(self.j)

    def variant(self):
        return self.j if isinstance(self.j, str) else list(self.j.keys())[0]


# ---------------------------------------------------------------- polymorphic claim operators

RTOL = 1e-9
ATOL = 1e-9
# when set (symbolic mode only) EQ/LE/GE build the *tolerant* form of a claim, whose negation is a robust
# violation (margin relative to the operands, with an absolute floor) — used to pick replayable witnesses
MARGIN = None


def _slack(a, b):
    from fractions import Fraction as _F
    if is_int(a) and is_int(b):
        return 0  # integer-valued terms (indices, counters) are compared exactly: a margin makes no sense for them
    m = z3.RealVal(_F(MARGIN).limit_denominator(10**9))
    ra = z3.ToReal(a) if (is_z3(a) and is_int(a)) else a
    rb = z3.ToReal(b) if (is_z3(b) and is_int(b)) else b
    return m * (1 + ABS(ra) + ABS(rb))



def _sym(*a):
    return any(is_z3(x) for x in a)


def _f(x):
    if isinstance(x, Fraction):
        return float(x)
    return x


def EQ(a, b):
    if _sym(a, b):
        if MARGIN is not None and not (is_bool(a) or is_bool(b)):
            a, b = to_z3(a), to_z3(b)
            return z3.And(a - b <= _slack(a, b), b - a <= _slack(a, b))
        return to_z3(a) == to_z3(b)
    a, b = _f(a), _f(b)
    if isinstance(a, bool) or isinstance(b, bool):
        return a == b
    return abs(a - b) <= ATOL + RTOL * max(abs(a), abs(b))


def LE(a, b):
    if _sym(a, b):
        if MARGIN is not None:
            a, b = to_z3(a), to_z3(b)
            return a <= b + _slack(a, b)
        return to_z3(a) <= to_z3(b)
    a, b = _f(a), _f(b)
    return a <= b + ATOL + RTOL * max(abs(a), abs(b))


def GE(a, b):
    return LE(b, a)


def LT(a, b):
    if _sym(a, b):
        if MARGIN is not None:
            a, b = to_z3(a), to_z3(b)
            return a < b + _slack(a, b)
        return to_z3(a) < to_z3(b)
    return _f(a) < _f(b)


def GT(a, b):
    return LT(b, a)


def AND(*a):
    if _sym(*a):
        return z3.And(*[to_z3(x) for x in a])
    return all(a)


def OR(*a):
    if _sym(*a):
        return z3.Or(*[to_z3(x) for x in a])
    return any(a)


def NOT(a):
    if is_z3(a):
        return z3.Not(a)
    return not a


def IMP(a, b):
    if _sym(a, b):
        return z3.Implies(to_z3(a), to_z3(b))
    return (not a) or b


def IF(c, a, b):
    if _sym(c, a, b):
        return z3.If(to_z3(c), to_z3(a), to_z3(b))
    return a if c else b


def MIN(a, b):
    if _sym(a, b):
        a, b = to_z3(a), to_z3(b)
        return z3.If(a <= b, a, b)
    return min(_f(a), _f(b))


def MAX(a, b):
    if _sym(a, b):
        a, b = to_z3(a), to_z3(b)
        return z3.If(a >= b, a, b)
    return max(_f(a), _f(b))


def ABS(a):
    if is_z3(a):
        return z3.If(a >= 0, a, -a)
    return abs(_f(a))


# exact comparisons (never widened by MARGIN / float tolerance): for structural conditions inside a claim
def XLE(a, b):
    if _sym(a, b):
        return to_z3(a) <= to_z3(b)
    return _f(a) <= _f(b)


def XLT(a, b):
    if _sym(a, b):
        return to_z3(a) < to_z3(b)
    return _f(a) < _f(b)


def XGE(a, b):
    return XLE(b, a)


def XGT(a, b):
    return XLT(b, a)


def XEQ(a, b):
    if _sym(a, b):
        return to_z3(a) == to_z3(b)
    return _f(a) == _f(b)
