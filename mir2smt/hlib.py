"""Harness-side helpers for engine M: symbolic inputs by field name, obligations, evidence."""
import json
import re
import os
import sys
import time
from fractions import Fraction

import z3

sys.path.insert(0, os.path.dirname(os.path.abspath(__file__)))
from values import *  # noqa
import mir as mirmod
from engine import Engine, State, Outcome, Inconclusive, PanicExc

NONE = Enum("Option", 0, ())


def SOME(v):
    return Enum("Option", 1, [v])


def OK(v=UNIT):
    return Enum("Result", 0, [v])


class Harness:
    """One harness = one engine + a registry of named symbolic inputs + obligations."""

    def __init__(self, mir, name, prop, mode="real", **kw):
        self.mir = mir
        self.name = name
        self.prop = prop
        self.eng = Engine(mir, mode=mode, **kw)
        self.syms = {}  # name -> z3 const
        self.assumptions = []  # (text, z3)
        self._cur_st = None
        self.obligations = []  # dict(name, status, time, model)
        self.bounds = {}
        self.notes = []
        self.t0 = time.time()
        self.solver_time = 0.0
        self.timeout_ms = kw.get("timeout_ms", 20000)

    # ---- inputs
    def real(self, name):
        if name in self.syms:
            return self.syms[name]
        if self.eng.mode == "float":
            raise RuntimeError("symbolic input in float mode")
        v = z3.Real(name)
        self.syms[name] = v
        return v

    def int(self, name):
        if name in self.syms:
            return self.syms[name]
        v = z3.Int(name)
        self.syms[name] = v
        return v

    def bool(self, name):
        if name in self.syms:
            return self.syms[name]
        v = z3.Bool(name)
        self.syms[name] = v
        return v

    def assume(self, c, text=None):
        self.assumptions.append((text or str(c)[:200], c))
        self.eng.solver.add(c)
        self.eng.global_assumptions.append(c)

    def struct(self, ty, **fields):
        names = self.mir.struct_fields.get(ty)
        if names is None:
            raise KeyError("no field schema for struct " + ty)
        for k in fields:
            if k not in names:
                raise KeyError(f"{ty} has no field {k} (has {names})")
        return Struct(ty, [fields.get(n, UNINIT) for n in names])

    def enum(self, ty, variant, *fields):
        return Enum(ty, self.mir.enums[ty].index(variant), fields)

    def get(self, v, path):
        """field access by dotted names on Struct values built by .struct / produced by the code"""
        for seg in path.split("."):
            if isinstance(v, Enum):
                if seg.isdigit():
                    v = v.fields[int(seg)]
                    continue
                raise KeyError(f"enum field {seg}")
            if isinstance(v, Seq):
                v = v.elems[int(seg)]
                continue
            if not isinstance(v, Struct):
                raise KeyError(f"get {seg} on {v!r}")
            if seg.isdigit():
                v = v.fields[int(seg)]
            else:
                v = v.fields[self.mir.field_index(v.ty, seg, len(v.fields))]
        return v

    def new_state(self):
        return State()

    def materialize(self, st, v):
        """replace Box placeholders of a template value by real heap cells (Box { Unique { NonNull { ptr } }, allocator })"""
        if isinstance(v, Struct):
            if v.ty == "BoxInline":
                cell = self.eng.heap_alloc(st, self.materialize(st, v.fields[0]))
                return Struct("Box", [Struct("Unique", [Struct("NonNull", [cell])]), UNIT])
            fs = [self.materialize(st, f) for f in v.fields]
            return v if all(a is b for a, b in zip(fs, v.fields)) else Struct(v.ty, fs)
        if isinstance(v, Enum):
            fs = [self.materialize(st, f) for f in v.fields]
            return v if all(a is b for a, b in zip(fs, v.fields)) else Enum(v.ty, v.variant, fs)
        if isinstance(v, Seq):
            es = [self.materialize(st, e) for e in v.elems]
            return v if all(a is b for a, b in zip(es, v.elems)) else Seq(es, ety=v.ety)
        return v

    def put(self, st, val):
        """allocate val on the harness heap, return pointer"""
        return self.eng.heap_alloc(st, self.materialize(st, val))

    def deref(self, st, p):
        return self.eng.load_ptr(st, p)

    # ---- running
    def run(self, fn, st, args):
        return self.eng.run(fn, st, args)

    # ---- proving
    def prove(self, out_or_st, claim, name, extra=()):
        """claim must hold on this path (under path condition and global assumptions)"""
        st = out_or_st.st if isinstance(out_or_st, Outcome) else out_or_st
        if isinstance(claim, bool):
            claim = z3.BoolVal(claim)
        quick_sat_model = None
        # identity fast path: many ledger claims are identities of the terms the code computed; they are unsatisfiable
        # on their own, without the (possibly hard, nonlinear) path condition
        if not z3.is_false(z3.simplify(claim)):
            s0 = z3.Solver()
            s0.set("timeout", 3000)
            s0.add(z3.Not(claim))
            t0 = time.time()
            r0 = s0.check()
            self.solver_time += time.time() - t0
            if r0 == z3.unsat:
                rec = {"name": name, "time_s": round(time.time() - t0, 4), "status": "holds", "identity": True}
                self.obligations.append(rec)
                return rec
            # a short attempt at the full query: easy proofs and, above all, easy counterexamples end here
            sq = z3.Solver()
            sq.set("timeout", 8000)
            for _, a in self.assumptions:
                sq.add(a)
            for c in st.pc:
                sq.add(c)
            for c in extra:
                sq.add(c)
            sq.add(z3.Not(claim))
            tq = time.time()
            rq = sq.check()
            self.solver_time += time.time() - tq
            if rq == z3.unsat:
                rec = {"name": name, "time_s": round(time.time() - tq, 4), "status": "holds"}
                self.obligations.append(rec)
                return rec
            quick_sat_model = sq.model() if rq == z3.sat else None
            # second stage: domain assumptions and the definitions of fresh variables only (no branch conditions):
            # still a sound proof (fewer hypotheses), and much easier for the nonlinear solver
            if quick_sat_model is None and getattr(st, "defs", ()):
                s1 = z3.Solver()
                s1.set("timeout", 15000)
                for _, a in self.assumptions:
                    s1.add(a)
                for c in st.defs:
                    s1.add(c)
                s1.add(z3.Not(claim))
                t1 = time.time()
                r1 = s1.check()
                self.solver_time += time.time() - t1
                if r1 == z3.unsat:
                    rec = {"name": name, "time_s": round(time.time() - t1, 4), "status": "holds", "without_branch_conditions": True}
                    self.obligations.append(rec)
                    return rec
        # third stage: the full query with nonlinear reasoning switched off (products / quotients of symbolic terms are opaque
        # monomials of the normalised polynomials): `unsat` is still a proof, anything else falls through to the full query
        if not z3.is_false(z3.simplify(claim)) and quick_sat_model is None:
            s2 = z3.SimpleSolver()
            s2.set("arith.nl", False)
            s2.set("timeout", 10000)
            for _, a in self.assumptions:
                s2.add(a)
            for c in st.pc:
                s2.add(c)
            for c in extra:
                s2.add(c)
            s2.add(z3.Not(claim))
            t2 = time.time()
            r2 = s2.check()
            self.solver_time += time.time() - t2
            if r2 == z3.unsat:
                rec = {"name": name, "time_s": round(time.time() - t2, 4), "status": "holds", "without_nonlinear_reasoning": True}
                self.obligations.append(rec)
                return rec
            # fourth stage: the same query through a simplifier that pushes arithmetic into the if-then-else terms left by
            # outcome merging and eliminates the equations that define intermediate values, then the SMT core
            try:
                tac = z3.Then(z3.With("simplify", push_ite_arith=True, som=True), "propagate-values", "solve-eqs", "smt")
                s3 = tac.solver()
                s3.set("timeout", 20000)
                for _, a in self.assumptions:
                    s3.add(a)
                for c in st.pc:
                    s3.add(c)
                for c in extra:
                    s3.add(c)
                s3.add(z3.Not(claim))
                t3 = time.time()
                r3 = s3.check()
                self.solver_time += time.time() - t3
                if r3 == z3.unsat:
                    rec = {"name": name, "time_s": round(time.time() - t3, 4), "status": "holds", "decided_by": "z3 (push-ite / solve-eqs pipeline)"}
                    self.obligations.append(rec)
                    return rec
            except z3.Z3Exception:
                pass
        s = z3.Solver()
        s.set("timeout", self.timeout_ms)
        for _, a in self.assumptions:
            s.add(a)
        for c in st.pc:
            s.add(c)
        for c in extra:
            s.add(c)
        s.add(z3.Not(claim))
        if not z3.is_false(z3.simplify(claim)) and self.timeout_ms > 30000 and quick_sat_model is None:
            # fifth stage: an early, short second opinion: cvc5 is often much quicker than z3 on these mixed ite / polynomial queries
            t5 = time.time()
            r5 = second_opinion(s, 30)
            self.solver_time += time.time() - t5
            if r5 == "unsat":
                rec = {"name": name, "time_s": round(time.time() - t5, 4), "status": "holds", "decided_by": "cvc5"}
                self.obligations.append(rec)
                return rec
        t = time.time()
        if quick_sat_model is not None:
            s.set("timeout", 8000)
        r = s.check()
        dt = time.time() - t
        self.solver_time += dt
        rec = {"name": name, "time_s": round(dt, 4)}
        if dt > 5 and os.environ.get("M2S_DUMP_SLOW"):
            fn = os.path.join(os.environ["M2S_DUMP_SLOW"], re.sub(r"[^\w]", "_", self.name + "_" + name)[:120] + ".smt2")
            open(fn, "w").write("(set-logic ALL)\n" + s.to_smt2())
        if r == z3.unsat:
            rec["status"] = "holds"
        elif r == z3.sat:
            rec["status"] = "violated"
            m = s.model()
            # prefer a witness the real build can reproduce: where a callee was replaced by its contract,
            # try to pin the contract's fresh result to what the real callee returns on constant maps
            pref = getattr(self.eng, "replay_prefs", [])
            if pref:
                s.push()
                for c in pref:
                    s.add(c)
                if s.check() == z3.sat:
                    m = s.model()
                    rec["witness_pinned_to_constant_maps"] = True
                s.pop()
            rec["model"] = self.model_values(m)
            rec["_model"] = m
        else:
            rec["status"] = "unknown"
            rec["reason"] = s.reason_unknown()
            if os.environ.get("M2S_DUMP_UNKNOWN"):
                fn = os.path.join(os.environ["M2S_DUMP_UNKNOWN"], re.sub(r"[^\w]", "_", self.name + "_" + name)[:120] + ".smt2")
                open(fn, "w").write("(set-logic ALL)\n" + s.to_smt2())
            # second opinion on a hard query: cvc5 on the same SMT-LIB text
            r2 = second_opinion(s, max(20, self.timeout_ms // 1000))
            if r2 == "unsat":
                rec["status"] = "holds"
                rec["decided_by"] = "cvc5"
        self.obligations.append(rec)
        return rec

    def within_side_conditions(self, out_or_st, claim, wd):
        """is the claim also violated where every recorded side condition (no division by zero, no overflow, ...) holds?
        -> ('sat', model) | ('unsat', None) | ('unknown', None).  The side conditions are separate obligations of the
        same path, so a claim that fails only where one of them fails is reported there and not twice."""
        st = out_or_st.st if isinstance(out_or_st, Outcome) else out_or_st
        s = z3.Solver()
        s.set("timeout", min(self.timeout_ms, 30000))
        for _, a in self.assumptions:
            s.add(a)
        for c in st.pc:
            s.add(c)
        for c in wd:
            s.add(c)
        s.add(z3.Not(claim))
        t = time.time()
        r = s.check()
        self.solver_time += time.time() - t
        if r == z3.sat:
            m = s.model()
            pref = getattr(self.eng, "replay_prefs", [])
            if pref:
                s.push()
                for c in pref:
                    s.add(c)
                if s.check() == z3.sat:
                    m = s.model()
                s.pop()
            return "sat", m
        return ("unsat" if r == z3.unsat else "unknown"), None

    def alt_models(self, out_or_st, negated, extra, prev, rnd, tries=5):
        """other models of the same violation (same path, same negated claim), moved away from `prev` by random pins:
        used when a witness does not reproduce on the real build because it sits on a rounding-sensitive boundary"""
        st = out_or_st.st if isinstance(out_or_st, Outcome) else out_or_st
        s = z3.Solver()
        s.set("timeout", min(self.timeout_ms, 10000))
        for _, a in self.assumptions:
            s.add(a)
        for c in st.pc:
            s.add(c)
        for c in extra:
            s.add(c)
        s.add(negated)
        reals = [(n, v) for n, v in self.syms.items() if v.sort().kind() == z3.Z3_REAL_SORT and isinstance(prev.get(n), (int, float)) and prev.get(n) != 0]
        for _ in range(tries):
            if not reals:
                return
            pins = []
            for (n, v) in rnd.sample(reals, min(len(reals), rnd.randint(1, 3))):
                pv = prev[n]
                f = rnd.choice([1.07, 1.31, 1.9, 0.93, 0.71, 0.45])
                pins.append(v == z3.RealVal(repr(round(pv * f, 6))))
            s.push()
            for p_ in pins:
                s.add(p_)
            t = time.time()
            r = s.check()
            self.solver_time += time.time() - t
            m = s.model() if r == z3.sat else None
            s.pop()
            if m is not None:
                yield m

    def robust_model(self, out_or_st, tolerant_claim, extra=()):
        """a model that violates the claim by a margin (and, if possible, with contract results pinned); or None"""
        st = out_or_st.st if isinstance(out_or_st, Outcome) else out_or_st
        s = z3.Solver()
        s.set("timeout", min(self.timeout_ms, 30000))
        for _, a in self.assumptions:
            s.add(a)
        for c in st.pc:
            s.add(c)
        for c in extra:
            s.add(c)
        s.add(z3.Not(tolerant_claim))
        t = time.time()
        best = None
        pref = getattr(self.eng, "replay_prefs", [])
        if pref:
            s.push()
            for c in pref:
                s.add(c)
            if s.check() == z3.sat:
                best = s.model()
            s.pop()
        if best is None and s.check() == z3.sat:
            best = s.model()
        self.solver_time += time.time() - t
        return best

    def reachable(self, out_or_st, cond=True, name="reach", tmo_ms=None):
        """vacuity witness: the path (and cond) is satisfiable"""
        st = out_or_st.st if isinstance(out_or_st, Outcome) else out_or_st
        s = z3.Solver()
        s.set("timeout", min(self.timeout_ms, tmo_ms) if tmo_ms else self.timeout_ms)
        for _, a in self.assumptions:
            s.add(a)
        for c in st.pc:
            s.add(c)
        if cond is not True:
            s.add(cond)
        t = time.time()
        r = s.check()
        self.solver_time += time.time() - t
        if r == z3.unknown:
            return None, None
        return r == z3.sat, (s.model() if r == z3.sat else None)

    def model_values(self, m):
        out = {}
        for n, v in self.syms.items():
            mv = m.eval(v, model_completion=True)
            out[n] = z3val(mv)
        return out

    def check_events(self, out, kinds=None, prefix=""):
        """discharge the side conditions the engine recorded along this path"""
        recs = []
        seen = []
        for (k, cond, where) in out.st.events:
            if kinds is not None and k not in kinds:
                continue
            cz = to_z3(cond)
            if any(z3.eq(cz, s) for s in seen):
                continue
            seen.append(cz)
            recs.append(self.prove(out, cz, f"{prefix}{k}:{where}#{len(seen)}"))
        return recs

    def summary(self):
        n = len(self.obligations)
        return {
            "harness": self.name,
            "obligations": n,
            "holds": sum(1 for o in self.obligations if o["status"] == "holds"),
            "violated": sum(1 for o in self.obligations if o["status"] == "violated"),
            "unknown": sum(1 for o in self.obligations if o["status"] == "unknown"),
            "solver_time_s": round(self.solver_time, 3),
            "feasibility_queries": self.eng.stats["feas_queries"],
            "feasibility_unknown": self.eng.stats.get("feas_unknown", 0),
            "feasibility_assumed_without_query": self.eng.stats.get("feas_assumed", 0),
            "feasibility_time_s": round(self.eng.stats["feas_time"], 3),
            "paths": self.eng.stats["paths"],
            "merges": self.eng.stats["merges"],
            "mir_statements_executed": self.eng.stats["stmts"],
            "wall_s": round(time.time() - self.t0, 3),
        }


def second_opinion(solver, tlimit_s):
    """run cvc5 on the solver's assertions; 'unsat' / 'sat' / 'unknown' (any error line = unknown)"""
    import subprocess, tempfile
    try:
        txt = "(set-logic ALL)\n" + solver.to_smt2()
        with tempfile.NamedTemporaryFile("w", suffix=".smt2", delete=False, dir=os.environ.get("NREL_ALTRIOS_VERIF_DIR", "/verif") + "/build") as f:
            f.write(txt)
            fn = f.name
        p = subprocess.run(["cvc5", "--lang", "smt2", f"--tlimit={tlimit_s * 1000}", fn], capture_output=True, text=True, timeout=tlimit_s + 10)
        os.unlink(fn)
        out = p.stdout.strip().splitlines()
        if any("(error" in l for l in out) or not out:
            return "unknown"
        return out[0].strip()
    except Exception:
        return "unknown"


def z3val(mv):
    try:
        return _z3val(mv)
    except Exception:
        return str(mv)


def _z3val(mv):
    if z3.is_rational_value(mv):
        fr = Fraction(mv.numerator_as_long(), mv.denominator_as_long())
        return float(fr)
    if z3.is_int_value(mv):
        return mv.as_long()
    if z3.is_true(mv):
        return True
    if z3.is_false(mv):
        return False
    if z3.is_algebraic_value(mv):
        return float(mv.approx(20).as_fraction())
    return str(mv)


def And(*a):
    a = [x for x in a if x is not True]
    if any(x is False for x in a):
        return z3.BoolVal(False)
    if not a:
        return z3.BoolVal(True)
    return z3.And(*[to_z3(x) for x in a])


def Or(*a):
    a = [x for x in a if x is not False]
    if any(x is True for x in a):
        return z3.BoolVal(True)
    if not a:
        return z3.BoolVal(False)
    return z3.Or(*[to_z3(x) for x in a])


def Implies(a, b):
    return z3.Implies(to_z3(a), to_z3(b))


def Eq(a, b):
    return to_z3(a) == to_z3(b)


def is_ok(o):
    return o.kind == "ret" and isinstance(o.val, Enum) and o.val.ty == "Result" and o.val.variant == 0


def is_err(o):
    return o.kind == "ret" and isinstance(o.val, Enum) and o.val.ty == "Result" and o.val.variant == 1
