"""Translator validation (Serval-style): run the interpreter in concrete IEEE-double mode on
inputs drawn from the harness domain and compare, field by field, with the real build."""
import math
import os
import random
import zlib

import z3

from hlib import Harness, z3val
from values import *  # noqa
from tmpl import Builder, Sym, Raw, Variant, INT_TYPES, NUM_TYPES, is_quantity
from schema import base_type, last_seg
import cases as casesmod


class FloatBuilder(Builder):
    def __init__(self, h, schema, model):
        super().__init__(h, schema)
        self.model = model

    def leaf_sym(self, t):
        if t.name in getattr(self, "fixed", {}):
            return self.fixed[t.name]
        v = self.model[t.name]
        if t.sort == "real":
            return float(v)
        return v


def sample_models(case, mir, schema, n, seed):
    """n assignments satisfying the case's assumptions, spread out by random pins"""
    rnd = random.Random(seed * 7919 + zlib.crc32(case.name.encode()) % 1000)
    h = Harness(mir, case.name + ":tv", case.prop)
    b = Builder(h, schema)
    b.fixed = dict(getattr(case, "fixed", {}) or {})
    if case.recv is not None:
        b.value(case.recv_ty, case.recv)
    for c in case.calls:
        for (ty, t) in c.args:
            if not ty.startswith("@"):
                b.value(ty.lstrip("&").strip(), t)
    for nme in getattr(case, "extra_syms", ()):
        if nme in getattr(case, "int_syms", ()):
            h.int(nme)
        else:
            h.real(nme)
    S = dict(h.syms)
    S.update(b.fixed)
    assumptions = case.assume(S) if case.assume else []
    assumptions = [(t, c) for (t, c) in assumptions if not isinstance(c, bool)]
    S = dict(h.syms)
    s = z3.Solver()
    s.set("timeout", 5000)
    for (_, c) in assumptions:
        s.add(c)
    models = []
    reals = [v for v in S.values() if v.sort().kind() == z3.Z3_REAL_SORT]
    bools = [v for v in S.values() if v.sort().kind() == z3.Z3_BOOL_SORT]
    prev = None
    tries = 0
    while len(models) < n and tries < n * 6:
        tries += 1
        s.push()
        pins = []
        if prev is not None and reals:
            for v in rnd.sample(reals, min(len(reals), rnd.randint(1, 4))):
                pv = prev.get(str(v), 0.0)
                if rnd.random() < 0.5:
                    pins.append(v > pv * rnd.choice([1.1, 1.5, 3]) + rnd.choice([0.001, 0.1, 1.0]))
                else:
                    pins.append(v < pv * rnd.choice([0.9, 0.5, 0.2]) - rnd.choice([0.0, 0.001, 0.1]))
        for v in bools:
            if rnd.random() < 0.5:
                pins.append(v == (rnd.random() < 0.5))
        r = None
        while True:
            s.push()
            for p in pins:
                s.add(p)
            r = s.check()
            if r == z3.sat:
                m = s.model()
                s.pop()
                break
            s.pop()
            if not pins:
                break
            pins.pop()
        s.pop()
        if r != z3.sat:
            continue
        mv = {k: z3val(m.eval(v, model_completion=True)) for k, v in S.items()}
        # reject algebraic / non-numeric leftovers
        if any(isinstance(x, str) for x in mv.values()):
            continue
        models.append(mv)
        prev = mv
    return models


def to_json(schema, h, ty, v):
    """engine value -> serde-shaped JSON (for comparison with the native post state)"""
    ty = ty.strip()
    wrap, inner = base_type(ty)
    if wrap == "Option":
        if v.variant == 0:
            return None
        return to_json(schema, h, inner, v.fields[0])
    if wrap in ("Vec", "Array"):
        return [to_json(schema, h, inner, x) for x in v.elems]
    if wrap == "Box":
        while isinstance(v, Struct) and v.ty in ("Box", "BoxInline"):
            if v.ty == "BoxInline":
                v = v.fields[0]
            else:
                p_ = v.fields[0]
                while isinstance(p_, Struct):
                    p_ = p_.fields[0]
                v = h.eng.load_ptr(h._cur_st, p_)
        return to_json(schema, h, inner, v)
    if wrap == "HashMap":
        from mir import split_top
        kt, vt = split_top(inner)
        return {(kv.fields[0].tag[2:] if isinstance(kv.fields[0], Opaque) else str(kv.fields[0])): to_json(schema, h, vt, kv.fields[1]) for kv in v.fields[0].elems}
    name = last_seg(ty)
    if is_quantity(ty) or name in NUM_TYPES:
        if isinstance(v, Opaque) and v.tag == "NaN":
            return float("nan")
        return float(v)
    if name in INT_TYPES:
        return int(v)
    if name == "bool":
        return bool(v)
    if name == "String":
        return None
    if name == "LinkIdx":
        return to_json(schema, h, "u32", v.fields[0])
    if schema.lookup(ty) is not None:
        if not schema.lookup(ty):
            return None if name in schema.unit_structs else {}
        out = {}
        for f, fv in zip(schema.lookup(ty), v.fields):
            if f.skip or fv is UNINIT:
                continue
            out[f.json_name] = to_json(schema, h, f.ty, fv)
        return out
    if name in schema.enums:
        vs = schema.enums[name]
        vn, kind, ptys = vs[v.variant]
        if kind == "unit":
            return vn
        return {vn: to_json(schema, h, ptys[0], v.fields[0])}
    raise Unsupported("to_json " + ty)


def plain(h, st, v):
    """returned engine value -> plain JSON (numbers / lists); None if not representable"""
    if v is None:
        return None
    v = h.eng.deref_all(st, v)
    if isinstance(v, Enum) and v.ty in ("Result", "Option"):
        if (v.ty == "Result" and v.variant == 1) or (v.ty == "Option" and v.variant == 0):
            return None
        return plain(h, st, v.fields[0])
    if isinstance(v, Seq):
        return [plain(h, st, x) for x in v.elems]
    if isinstance(v, Struct) and v.ty == "()":
        return [plain(h, st, x) for x in v.fields] if v.fields else None
    if isinstance(v, bool):
        return v
    if isinstance(v, (int, float)):
        return v
    return None


def diff_json(a, b, path="", out=None, rtol=1e-9, atol=1e-12):
    """a: interpreter, b: native. returns list of (path, a, b)"""
    if out is None:
        out = []
    if isinstance(a, dict) and isinstance(b, dict):
        for k in a:
            if k in b:
                diff_json(a[k], b[k], path + "." + k, out, rtol, atol)
        return out
    if isinstance(a, list) and isinstance(b, list):
        if len(a) != len(b):
            out.append((path + ".len", len(a), len(b)))
            return out
        for i, (x, y) in enumerate(zip(a, b)):
            diff_json(x, y, f"{path}.{i}", out, rtol, atol)
        return out
    if isinstance(a, bool) or isinstance(b, bool):
        if a != b:
            out.append((path, a, b))
        return out
    if isinstance(a, (int, float)) and isinstance(b, (int, float)):
        if isinstance(a, float) and (math.isnan(a) or math.isinf(a)):
            return out  # native serializes non-finite as null; handled below
        if abs(a - b) > atol + rtol * max(abs(a), abs(b)):
            out.append((path, a, b))
        return out
    if a is None and b is None:
        return out
    if isinstance(a, float) and b is None and (math.isnan(a) or math.isinf(a)):
        return out
    if a is None and isinstance(b, str) or isinstance(a, str) and isinstance(b, str):
        return out
    if a != b:
        out.append((path, a, b))
    return out


def validate_case(case, mir, schema, native, n, seed, models=None):
    for wname, wfields in getattr(schema, "wrappers", {}).items():
        mir.struct_fields[wname] = wfields
        mir.struct_fields_all[wname] = [wfields]
    res = {"vectors": 0, "agree": 0, "disagreements": 0, "skipped": 0, "kinds": {}, "first_disagreement": None, "sample_vector": None}
    if models is None:
        models = sample_models(case, mir, schema, n, seed)
    for mv in models:
        h = Harness(mir, case.name + ":tvf", case.prop, mode="float", loop_bound=200)
        b = FloatBuilder(h, schema, mv)
        b.fixed = dict(getattr(case, "fixed", {}) or {})
        try:
            recv_val = b.value(case.recv_ty, case.recv) if case.recv is not None else None
            st = h.new_state()
            call_args = []
            for c in case.calls:
                row = []
                for (ty, t) in c.args:
                    if ty.startswith("@"):
                        row.append(("@", ty[1:]))
                    elif ty.startswith("&"):
                        row.append(h.put(st, b.value(ty[1:].strip(), t)))
                    else:
                        row.append(b.value(ty, t))
                call_args.append(row)
            p = h.put(st, recv_val) if recv_val is not None else None
            retv = None
            kind = "ok"
            step = 0
            for ci, c in enumerate(case.calls):
                step = ci
                pp = p
                if c.recv_path:
                    for seg in c.recv_path.split("."):
                        cur = h.eng.load_ptr(st, pp)
                        idx = 0 if isinstance(cur, Enum) else mir.field_index(cur.ty, seg, len(cur.fields))
                        pp = Ptr(pp.root, pp.path + (idx,))
                def _sub(pp0, path):
                    q = pp0
                    for seg in path.split("."):
                        cur = h.eng.load_ptr(st, q)
                        idx = 0 if isinstance(cur, Enum) else mir.field_index(cur.ty, seg, len(cur.fields))
                        q = Ptr(q.root, q.path + (idx,))
                    return q
                resolved = [(_sub(p, a[1]) if isinstance(a, tuple) and len(a) == 2 and a[0] == "@" else a) for a in call_args[ci]]
                outs = h.run(c.fn, st, ([pp] if pp is not None and not case.free_fn else []) + resolved)
                if len(outs) != 1:
                    raise Unsupported(f"concrete run produced {len(outs)} outcomes")
                o = outs[0]
                st = o.st
                kind = casesmod.outcome_kind(o)
                retv = o.val if o.kind == "ret" else None
                if kind != "ok":
                    break
            h._cur_st = st
            post = to_json(schema, h, case.recv_ty, h.deref(st, p)) if p is not None else None
            retj = plain(h, st, retv)
            rty = getattr(case, "ret_ty", None)
            if rty and retv is not None:
                rv = h.eng.deref_all(st, retv)
                if isinstance(rv, Enum) and rv.ty == "Result" and rv.variant == 0:
                    rv = rv.fields[0]
                    retj = to_json(schema, h, rty, Struct(rty, rv.fields) if isinstance(rv, Struct) and rv.ty == "()" else rv)
        except (Unsupported, Exception) as e:  # noqa
            res["skipped"] += 1
            res.setdefault("skip_reasons", []).append(repr(e)[:200])
            continue
        b2 = Builder(h, schema)
        b2.fixed = dict(getattr(case, "fixed", {}) or {})
        req = {"recv_ty": case.recv_ty if case.recv is not None else "<free>", "recv": b2.json(case.recv_ty, case.recv, mv) if case.recv is not None else None,
               "calls": [{"fn": c.fn, "recv_path": c.recv_path, "args": [b2.json(ty.lstrip("&").strip(), t, mv) for (ty, t) in c.args if not ty.startswith("@")]} for c in list(getattr(case, "native_pre", ())) + list(case.calls)]}
        resp = native.call(req)
        if resp.get("kind") == "unsupported":
            res["skipped"] += 1
            res.setdefault("skip_reasons", []).append(str(resp.get("msg"))[:200])
            continue
        res["vectors"] += 1
        res["kinds"][resp["kind"]] = res["kinds"].get(resp["kind"], 0) + 1
        d = []
        if resp["kind"] != kind:
            d.append(("outcome", kind, resp["kind"]))
        elif kind != "panic":
            d = diff_json(post, resp.get("recv")) if post is not None else []
            if kind == "ok" and retj is not None and resp.get("ret") is not None:
                d += diff_json(retj, resp.get("ret"), "ret")
        if d:
            res["disagreements"] += 1
            if res["first_disagreement"] is None:
                res["first_disagreement"] = {"diff": d[:8], "interp_kind": kind, "native_kind": resp["kind"], "inputs": mv}
                if os.environ.get("VERIF_TV_DEBUG"):
                    res["debug"] = {"interp": post, "native": resp, "req": req}
        else:
            res["agree"] += 1
            if res["sample_vector"] is None:
                res["sample_vector"] = {"inputs": mv, "kind": kind}
    return res
