"""Closed table of models for calls that leave the crate (std, uom, anyhow).

Anything not matched here and not resolvable to a MIR body in the dump makes the
path `Unsupported` -> the harness is inconclusive, never passing.
"""
import re
from fractions import Fraction

import z3

from values import *  # noqa
import mir as mirmod
from mir import find_matching, strip_generics


def _o(st, v):
    from engine import Outcome
    return [Outcome(st, "ret", v)]


def _panic(st, msg):
    from engine import Outcome
    return [Outcome(st, "panic", msg)]


INT_NAMES = {"usize", "u8", "u16", "u32", "u64", "i8", "i16", "i32", "i64", "isize"}
NUMERIC_T = {"Quantity", "f64", "f32", "usize", "u8", "u16", "u32", "u64", "i8", "i16", "i32", "i64", "isize", "bool", "u128", "i128"}

# uom unit -> coefficient to the SI base unit (exactly the f64 uom uses)
UNITS = {
    ("power", "watt"): 1.0, ("power", "kilowatt"): 1e3, ("power", "megawatt"): 1e6, ("power", "horsepower"): 745.6998715822702,
    ("energy", "joule"): 1.0, ("energy", "kilojoule"): 1e3, ("energy", "megajoule"): 1e6, ("energy", "kilowatt_hour"): 3.6e6, ("energy", "watt_hour"): 3.6e3,
    ("energy", "gigajoule"): 1e9, ("energy", "megawatt_hour"): 3.6e9,
    ("length", "meter"): 1.0, ("length", "kilometer"): 1e3, ("length", "foot"): 0.3048, ("length", "mile"): 1609.344, ("length", "inch"): 0.0254,
    ("velocity", "meter_per_second"): 1.0, ("velocity", "mile_per_hour"): 0.44704, ("velocity", "kilometer_per_hour"): 1.0 / 3.6,
    ("mass", "kilogram"): 1.0, ("mass", "pound"): 0.45359237, ("mass", "ton_short"): 907.18474, ("mass", "megagram"): 1e3, ("mass", "ton"): 1e3,
    ("time", "second"): 1.0, ("time", "hour"): 3600.0, ("time", "minute"): 60.0,
    ("ratio", "ratio"): 1.0, ("ratio", "percent"): 0.01,
    ("force", "newton"): 1.0, ("force", "pound_force"): 4.4482216152605, ("force", "kilonewton"): 1e3,
    ("acceleration", "meter_per_second_squared"): 1.0,
    ("area", "square_meter"): 1.0, ("area", "square_foot"): 0.09290304,
    ("volume", "cubic_meter"): 1.0,
    ("mass_density", "kilogram_per_cubic_meter"): 1.0,
    ("frequency", "hertz"): 1.0,
    ("angle", "radian"): 1.0, ("angle", "degree"): 0.017453292519943295, ("angle", "revolution"): 6.283185307179586,
    ("thermodynamic_temperature", "kelvin"): 1.0,
    ("temperature_interval", "kelvin"): 1.0,
    ("pressure", "pascal"): 1.0,
    ("power_rate", "watt_per_second"): 1.0,
    ("specific_power", "watt_per_kilogram"): 1.0,
    ("available_energy", "joule_per_kilogram"): 1.0,
    ("specific_heat_capacity", "joule_per_kilogram_kelvin"): 1.0,
    ("linear_number_density", "per_meter"): 1.0,
    ("curvature", "radian_per_meter"): 1.0,
    ("inverse_velocity", "second_per_meter"): 1.0,
}


def enum_discr_value(eng, e):
    if e.ty == "Ordering":
        return e.variant - 1  # Less=-1, Equal=0, Greater=1 (variant index 0,1,2)
    ds = eng.mir.enum_discr.get(e.ty)
    if ds is not None:
        return ds[e.variant]
    return e.variant


def parse_callee(callee):
    """-> (T, Trait, method, generic_tail)  with None where absent"""
    c = callee.strip()
    if c.startswith("<"):
        close = find_matching(c, 0)
        inner = c[1:close]
        rest = c[close + 1 :]
        if rest.startswith("::"):
            rest = rest[2:]
        gen = None
        gi = rest.find("::<")
        if gi >= 0:
            gen = rest[gi + 3 : -1]
            rest = rest[:gi]
        parts = mirmod._split_as(inner)
        T = mirmod._type_last(parts[0])
        Tr = mirmod._type_last(parts[1]) if len(parts) > 1 else None
        rawT = parts[0].strip()
        return (T, Tr, rest, gen, rawT)
    # `kind::<impl Q>::method::<unit>`
    m = re.search(r"(\w+)::<impl ", c)
    if m:
        start = m.end() - len("<impl ")
        close = find_matching(c, start)
        implT = mirmod._type_last(c[start + 6 : close])
        rest = c[close + 1 :]
        if rest.startswith("::"):
            rest = rest[2:]
        gen = None
        gi = rest.find("::<")
        if gi >= 0:
            gen = rest[gi + 3 : -1]
            rest = rest[:gi]
        return ("impl:" + implT, m.group(1), rest, gen, None)
    # plain path, keep last generic list
    gen = None
    if c.endswith(">"):
        # find the start of the trailing ::<..>
        depth = 0
        i = len(c) - 1
        while i >= 0:
            ch = c[i]
            if ch == ">" and not (i > 0 and c[i - 1] in "-="):
                depth += 1
            elif ch == "<":
                depth -= 1
                if depth == 0:
                    break
            i -= 1
        if i >= 2 and c[i - 2 : i] == "::":
            gen = c[i + 1 : -1]
            c = c[: i - 2]
    ng = strip_generics(c)
    segs = ng.split("::")
    return (segs[-2] if len(segs) >= 2 else None, None, segs[-1], gen, None)


# ---------------------------------------------------------------- numeric helpers


def num2(eng, st, args):
    a = eng.deref_all(st, args[0])
    b = eng.deref_all(st, args[1])
    return a, b


def _is_nan(x):
    return (isinstance(x, Opaque) and x.tag == "NaN") or (isinstance(x, float) and x != x)


def _inf_tag(x):
    if isinstance(x, Opaque) and x.tag in ("+inf", "-inf"):
        return 1 if x.tag == "+inf" else -1
    if isinstance(x, float) and x in (float("inf"), float("-inf")):
        return 1 if x > 0 else -1
    return 0


def fmin(eng, a, b):
    # IEEE minNum / maxNum: a NaN operand is ignored
    if _is_nan(a):
        return b
    if _is_nan(b):
        return a
    if _inf_tag(a) or _inf_tag(b):
        # every other operand is finite
        if _inf_tag(a) < 0 or _inf_tag(b) > 0:
            return a
        return b
    if is_conc(a) and is_conc(b):
        return a if a <= b else b
    a, b = to_z3(a), to_z3(b)
    return z3.If(a <= b, a, b)


def fmax(eng, a, b):
    if _is_nan(a):
        return b
    if _is_nan(b):
        return a
    if _inf_tag(a) or _inf_tag(b):
        if _inf_tag(a) > 0 or _inf_tag(b) < 0:
            return a
        return b
    if is_conc(a) and is_conc(b):
        return a if a >= b else b
    a, b = to_z3(a), to_z3(b)
    return z3.If(a >= b, a, b)


def fabs(eng, a):
    if is_conc(a):
        return abs(a)
    return z3.If(a >= 0, a, -a)


def fsqrt(eng, st, a):
    if eng.mode == "float":
        import math
        return math.sqrt(a) if a >= 0 else float("nan")
    if is_conc(a):
        if a < 0:
            raise Unsupported("sqrt of negative constant (NaN)")
        from math import isqrt
        n, d = a.numerator, a.denominator
        if isqrt(n) ** 2 == n and isqrt(d) ** 2 == d:
            return Fraction(isqrt(n), isqrt(d))
        a = to_z3(a)
    # sqrt(x * x) = |x| exactly (keeps a step whose discriminant is a perfect square linear)
    sa = z3.simplify(a, som=False) if is_z3(a) else a
    if is_z3(sa):
        base = None
        if z3.is_app_of(sa, z3.Z3_OP_POWER) and z3.is_rational_value(sa.arg(1)) and sa.arg(1).as_fraction() == 2:
            base = sa.arg(0)
        elif z3.is_mul(sa) and sa.num_args() == 2 and sa.arg(0).eq(sa.arg(1)):
            base = sa.arg(0)
        if base is not None:
            return z3.If(base >= 0, base, -base)
    r = eng.fresh("sqrt")
    st.events = st.events + (("sqrt_nonneg", a >= 0, "sqrt argument"),)
    st.define(z3.And(r >= 0, r * r == a))
    return r


CMP = {"lt": "Lt", "le": "Le", "gt": "Gt", "ge": "Ge", "eq": "Eq", "ne": "Ne"}
ARITH = {"add": "Add", "sub": "Sub", "mul": "Mul", "div": "Div", "rem": "Rem"}
ARITH_ASSIGN = {"add_assign": "Add", "sub_assign": "Sub", "mul_assign": "Mul", "div_assign": "Div"}

OPAQUE_FNS = {
    "from_str_nonconst", "new_display", "new_debug", "new_lower_exp", "new_upper_exp", "new_const", "new_v1", "new_v1_formatted", "from_str", "format", "must_use",
    "anyhow_kind", "format_err", "msg", "to_string", "to_owned", "format_dbg", "format_eng", "context", "caller", "location",
}


def mk_err(tag="anyhow::Error"):
    return Opaque(tag)


# ---------------------------------------------------------------- dispatch


def model_almost_eq(eng, st, args):
    """utils::almost_eq(v1, v2, eps) with IEEE semantics of the inner division: when v1 + v2 == 0 the quotient is
    NaN or +-inf, the first comparison is false and the result is |v2 - v1| < eps"""
    v1 = eng.deref_all(st, args[0])
    v2 = eng.deref_all(st, args[1])
    e = args[2]
    eps = e.fields[0] if (isinstance(e, Enum) and e.variant == 1) else eng.flt(1e-8)
    if eng.mode == "float":
        d = v2 - v1
        ssum = v1 + v2
        q = (d / ssum) if ssum != 0 else (float("nan") if d == 0 else float("inf"))
        return _o(st, (abs(q) < eps) or (abs(d) < eps))
    v1, v2, eps = to_z3(v1), to_z3(v2), to_z3(eps)
    d = v2 - v1
    ad = z3.If(d >= 0, d, -d)
    ssum = v1 + v2
    asum = z3.If(ssum >= 0, ssum, -ssum)
    # |d / ssum| < eps  <=>  |d| < eps * |ssum|  for ssum != 0: stated without the division (linear for a constant eps)
    return _o(st, z3.If(ssum == 0, ad < eps, z3.Or(ad < eps * asum, ad < eps)))


def dispatch(eng, st, body, callee, args):
    T, Tr, meth, gen, rawT = parse_callee(callee)
    if meth == "almost_eq" and T in (None, "utils") and len(args) == 3:
        return model_almost_eq(eng, st, args)
    if Tr in ("TryInto", "TryFrom") and meth in ("try_into", "try_from") and len(args) == 1 and isinstance(args[0], int) and not isinstance(args[0], bool):
        from engine import INT_RANGES
        mt = re.search(r"Try(?:Into|From)<(\w+)>", callee)
        tgt = mt.group(1) if meth == "try_into" else T
        lo, hi = INT_RANGES.get(tgt, (None, None))
        if lo is not None:
            v = args[0]
            return _o(st, Enum("Result", 0, [v]) if lo <= v <= hi else Enum("Result", 1, [Opaque("TryFromIntError")]))
    if Tr in ("TryInto", "TryFrom") and meth in ("try_into", "try_from") and len(args) == 1 and is_z3(args[0]) and is_int(args[0]):
        from engine import INT_RANGES, Outcome
        mt = re.search(r"Try(?:Into|From)<(\w+)>", callee)
        src, tgt = (T, mt.group(1)) if meth == "try_into" else (mt.group(1), T)
        if src in INT_RANGES and tgt in INT_RANGES:
            (slo, shi), (tlo, thi) = INT_RANGES[src], INT_RANGES[tgt]
            v = args[0]
            if tlo <= slo and shi <= thi:
                return _o(st, Enum("Result", 0, [v]))
            outs = []
            fits = z3.And(v >= tlo, v <= thi)
            if eng.feasible(st, fits):
                s2 = st.fork(); s2.assume(fits)
                outs.append(Outcome(s2, "ret", Enum("Result", 0, [v])))
            if eng.feasible(st, z3.Not(fits)):
                s3 = st.fork(); s3.assume(z3.Not(fits))
                outs.append(Outcome(s3, "ret", Enum("Result", 1, [Opaque("TryFromIntError")])))
            return outs
    if T in ("PInt", "NInt") and meth == "new":
        # typenum exponent marker: keep the type-level integer (binary: UInt<UInt<UTerm, B1>, B0> = 2)
        bits = re.findall(r"B([01])", callee)
        n = 0
        for b_ in bits:
            n = n * 2 + int(b_)
        return _o(st, Struct("typenum", [n if T == "PInt" else -n]))
    eng.stats["intrinsics"].add(f"{T}|{Tr}|{meth}")
    ng = None

    # ---- numeric traits on Quantity / primitives (by value or by reference)
    if T in NUMERIC_T and Tr in ("PartialOrd", "PartialEq", "Ord") and meth in CMP:
        a, b = num2(eng, st, args)
        return _o(st, eng.binop(st, CMP[meth], a, b))
    if T in NUMERIC_T and Tr in ("Add", "Sub", "Mul", "Div", "Rem") and meth in ARITH:
        a, b = num2(eng, st, args)
        return _o(st, eng.binop(st, ARITH[meth], a, b))
    if T in NUMERIC_T and Tr in ("AddAssign", "SubAssign", "MulAssign", "DivAssign") and meth in ARITH_ASSIGN:
        p = args[0]
        a = eng.load_ptr(st, p)
        b = eng.deref_all(st, args[1])
        eng.store_ptr(st, p, eng.binop(st, ARITH_ASSIGN[meth], a, b))
        return _o(st, UNIT)
    if T in NUMERIC_T and Tr == "Neg" and meth == "neg":
        return _o(st, eng.unop(st, "Neg", eng.deref_all(st, args[0])))
    if T in NUMERIC_T and Tr == "Not" and meth == "not":
        return _o(st, eng.unop(st, "Not", eng.deref_all(st, args[0])))
    if T in NUMERIC_T and Tr == "Clone" and meth == "clone":
        return _o(st, eng.deref_all(st, args[0]))
    if T in NUMERIC_T and Tr == "Default" and meth == "default":
        return _o(st, False if T == "bool" else (eng.flt(0.0) if T in ("Quantity", "f64", "f32") else 0))
    if T in NUMERIC_T and Tr == "PartialOrd" and meth == "partial_cmp" and not any(_is_nan(x) or _inf_tag(x) for x in num2(eng, st, args)):
        a, b = num2(eng, st, args)
        if is_conc(a) and is_conc(b):
            return _o(st, Enum("Option", 1, [Enum("Ordering", 0 if a < b else (1 if a == b else 2), ())]))
        if is_scalar(a) and is_scalar(b):
            # symbolic: one outcome per feasible ordering
            from engine import Outcome
            za, zb = to_z3(a), to_z3(b)
            outs = []
            for k, cnd in ((0, za < zb), (1, za == zb), (2, za > zb)):
                if eng.feasible(st, cnd):
                    s2 = st.fork()
                    s2.assume(cnd)
                    outs.append(Outcome(s2, "ret", Enum("Option", 1, [Enum("Ordering", k, ())])))
            return outs
        raise Unsupported("symbolic partial_cmp")
    if T in NUMERIC_T and Tr == "Ord" and meth in ("max", "min", "cmp"):
        a, b = num2(eng, st, args)
        if meth == "cmp":
            if is_conc(a) and is_conc(b):
                return _o(st, Enum("Ordering", 0 if a < b else (1 if a == b else 2), ()))
            raise Unsupported("symbolic cmp")
        return _o(st, fmax(eng, a, b) if meth == "max" else fmin(eng, a, b))
    if Tr == "Sum" and meth == "sum":
        return iter_fold_sum(eng, st, args[0])
    # generic `T: PartialOrd` etc. inside un-monomorphised bodies: decide by the run-time values
    if Tr in ("PartialOrd", "PartialEq") and meth in CMP and len(args) == 2:
        a, b = num2(eng, st, args)
        if is_scalar(a) and is_scalar(b):
            return _o(st, eng.binop(st, CMP[meth], a, b))
    if Tr == "PartialOrd" and meth in ("lt", "le", "gt", "ge") and len(args) == 2:
        a0 = eng.deref_all(st, args[0])
        if isinstance(a0, (Struct, Enum)) and a0.ty not in ("()",):
            # provided methods of core::cmp::PartialOrd on a crate type: through its (derived) partial_cmp
            nm = eng.mir.resolve(f"<{a0.ty} as PartialOrd>::partial_cmp")
            if nm is not None:
                from engine import Outcome
                want = {"lt": (0,), "le": (0, 1), "gt": (2,), "ge": (1, 2)}[meth]
                outs = []
                for o in eng.exec_body(st, eng.mir.bodies[nm], args):
                    if o.kind != "ret":
                        outs.append(o)
                        continue
                    v = o.val
                    res = isinstance(v, Enum) and v.ty == "Option" and v.variant == 1 and isinstance(v.fields[0], Enum) and v.fields[0].variant in want
                    outs.append(Outcome(o.st, "ret", res))
                return outs
    if Tr in ("PartialOrd", "Ord") and meth in ("partial_cmp", "cmp") and len(args) == 2:
        a, b = num2(eng, st, args)
        if meth == "partial_cmp" and (_is_nan(a) or _is_nan(b)) and (_is_nan(a) or is_scalar(a) or _inf_tag(a)) and (_is_nan(b) or is_scalar(b) or _inf_tag(b)):
            return _o(st, Enum("Option", 0, ()))  # unordered
        if (_inf_tag(a) or _inf_tag(b)) and (_inf_tag(a) or is_scalar(a)) and (_inf_tag(b) or is_scalar(b)):
            # an infinity against a finite value (every symbolic value is finite) or another infinity
            va, vb = _inf_tag(a), _inf_tag(b)
            o = Enum("Ordering", 0 if va < vb else (1 if va == vb else 2), ())
            return _o(st, Enum("Option", 1, [o]) if meth == "partial_cmp" else o)
        if is_scalar(a) and is_scalar(b):
            wrap = (lambda o: Enum("Option", 1, [o])) if meth == "partial_cmp" else (lambda o: o)
            if is_conc(a) and is_conc(b):
                if eng.mode == "float" and (a != a or b != b):
                    return _o(st, Enum("Option", 0, ()))
                return _o(st, wrap(Enum("Ordering", 0 if a < b else (1 if a == b else 2), ())))
            from engine import Outcome
            a, b = to_z3(a), to_z3(b)
            outs = []
            for k, cnd in ((0, a < b), (1, a == b), (2, a > b)):
                if eng.feasible(st, cnd):
                    s2 = st.fork()
                    s2.assume(cnd)
                    outs.append(Outcome(s2, "ret", wrap(Enum("Ordering", k, ()))))
            return outs
    if Tr == "PartialEq" and meth in ("eq", "ne") and len(args) == 2:
        a, b = num2(eng, st, args)
        if isinstance(a, Enum) and isinstance(b, Enum) and not a.fields and not b.fields:
            r = a.variant == b.variant
            return _o(st, r if meth == "eq" else not r)
        if meth == "ne" and isinstance(a, (Struct, Enum, Seq)):
            # `ne` is the provided method of core::cmp::PartialEq: !eq
            name = eng.mir.resolve(callee.replace("::ne", "::eq"))
            if name is not None:
                from engine import Outcome
                return [Outcome(o.st, o.kind, eng.unop(o.st, "Not", o.val) if o.kind == "ret" else o.val) for o in eng.exec_body(st, eng.mir.bodies[name], args)]
            r = value_eq(eng, st, a, b)
            return _o(st, eng.unop(st, "Not", r))
    if Tr in ("Add", "Sub", "Mul", "Div") and meth in ARITH and len(args) == 2:
        a, b = num2(eng, st, args)
        if is_scalar(a) and is_scalar(b):
            return _o(st, eng.binop(st, ARITH[meth], a, b))

    # ---- uom quantity <-> f64
    if T is not None and T.startswith("impl:") and meth in ("get", "new") and Tr is not None and gen is not None and T == "impl:Quantity":
        unit = strip_generics(gen).split("::")[-1]
        coef = UNITS.get((Tr, unit))
        if coef is None:
            raise Unsupported(f"unit {Tr}::{unit}")
        v = eng.deref_all(st, args[0])
        c = eng.flt(coef)
        if coef == 1.0:
            return _o(st, v)
        return _o(st, eng.binop(st, "Mul" if meth == "new" else "Div", v, c))
    if T in ("impl:f64", "impl:Quantity", "Quantity", "f64") or (T is None and False):
        r = float_method(eng, st, meth, args, gen)
        if r is not None:
            return r
    if T in ("impl:usize", "impl:u32", "impl:u64", "impl:i32", "impl:i64", "impl:u8", "usize", "u32") and meth in ("min", "max", "pow", "saturating_sub", "checked_sub", "abs_diff", "wrapping_sub", "wrapping_add"):
        a = eng.deref_all(st, args[0])
        b = eng.deref_all(st, args[1])
        if meth == "min":
            return _o(st, fmin(eng, a, b))
        if meth == "max":
            return _o(st, fmax(eng, a, b))
        if is_conc(a) and is_conc(b):
            if meth == "pow":
                return _o(st, a**b)
            if meth == "saturating_sub":
                return _o(st, max(0, a - b))
            if meth == "abs_diff":
                return _o(st, abs(a - b))
            if meth == "checked_sub":
                return _o(st, Enum("Option", 1, [a - b]) if a >= b else Enum("Option", 0, ()))
        raise Unsupported("symbolic int method " + meth)

    # ---- formatting / error plumbing: empty bodies
    if meth == "format_eng":
        return _o(st, Opaque("String"))
    if meth in OPAQUE_FNS and (T in (None, "Argument", "Arguments", "fmt", "__private", "error", "kind", "String", "str", "Error", "impl:Error", "alloc", "hint", "impl:str", "ToString", "ToOwned", "Location", "impl:Arguments") or Tr in ("AdhocKind", "ToString", "ToOwned", "TraitKind", "BoxedKind") or (T and T.startswith("&"))):
        if meth == "must_use":
            return _o(st, args[0])
        if meth in ("format_err", "msg"):
            return _o(st, mk_err())
        return _o(st, Opaque(meth))
    if T == "Arguments" and meth == "new":
        return _o(st, Opaque("fmt::Arguments"))
    if meth == "__dispatch_ensure" or Tr in ("BothDebug", "NotBothDebug"):
        return _o(st, mk_err())
    if T == "Adhoc" and meth == "new":
        return _o(st, mk_err())
    if T == "__private" and meth == "not":
        return _o(st, eng.unop(st, "Not", eng.deref_all(st, args[0])))
    if T in ("Error", "impl:Error") and meth in ("new", "msg", "context", "from", "construct"):
        return _o(st, mk_err())
    if Tr in ("From", "Into") and meth in ("from", "into") and any(isinstance(a, Opaque) for a in args):
        return _o(st, args[0])
    if Tr == "Context" and meth in ("context", "with_context"):
        r = args[0]
        return _o(st, _context(eng, st, r))
    if Tr == "Display" and meth == "fmt":
        return _o(st, Enum("Result", 0, [UNIT]))
    if Tr == "Debug" and meth == "fmt":
        return _o(st, Enum("Result", 0, [UNIT]))

    # ---- Try
    if Tr == "Try" and meth == "branch":
        v = args[0]
        if isinstance(v, Enum) and v.ty == "Result":
            if v.variant == 0:
                return _o(st, Enum("ControlFlow", 0, [v.fields[0]]))
            return _o(st, Enum("ControlFlow", 1, [Enum("Result", 1, [v.fields[0]])]))
        if isinstance(v, Enum) and v.ty == "Option":
            if v.variant == 1:
                return _o(st, Enum("ControlFlow", 0, [v.fields[0]]))
            return _o(st, Enum("ControlFlow", 1, [Enum("Option", 0, ())]))
        raise Unsupported(f"Try::branch on {v!r}")
    if Tr == "FromResidual" and meth == "from_residual":
        v = args[0]
        if isinstance(v, Enum) and v.ty == "Result":
            return _o(st, Enum("Result", 1, [v.fields[0] if v.fields else mk_err()]))
        if isinstance(v, Enum) and v.ty == "Option":
            return _o(st, Enum("Option", 0, ()))
        raise Unsupported("from_residual")

    # ---- Option / Result
    if T in ("Option", "Result") and Tr is None:
        r = option_result(eng, st, T, meth, args, callee)
        if r is not None:
            return r
    if T in ("Option", "Result") and Tr == "Clone" and meth == "clone":
        return _o(st, eng.deref_all(st, args[0]))
    if T == "Option" and Tr == "Default":
        return _o(st, Enum("Option", 0, ()))
    if T in ("Option",) and Tr == "PartialEq" and meth in ("eq", "ne"):
        a, b = num2(eng, st, args)
        if a.variant != b.variant:
            r = False
        elif a.variant == 0:
            r = True
        else:
            r = value_eq(eng, st, a.fields[0], b.fields[0])
        return _o(st, r if meth == "eq" else eng.unop(st, "Not", r))

    # ---- HashMap (association list of concrete keys; enough for emptiness, length, lookup by unit-enum / integer key)
    if T == "HashMap" or (T or "") == "impl:HashMap":
        r = hashmap_ops(eng, st, meth, args)
        if r is not None:
            return r

    # ---- Vec / slices / arrays
    r = seq_ops(eng, st, T, Tr, meth, args, gen, rawT)
    if r is not None:
        return r

    # ---- iterators
    r = iter_ops(eng, st, T, Tr, meth, args, gen)
    if r is not None:
        return r

    # ---- panics
    if meth in ("panic", "panic_fmt", "panic_explicit", "unreachable_display", "panic_display", "begin_panic", "panic_str", "assert_failed", "panic_bounds_check", "expect_failed", "unwrap_failed", "panic_nounwind") and (T in ("panicking", "option", "result", None, "rt")):
        return _panic(st, "panic: " + meth)

    # ---- misc std
    if T == "mem" and meth in ("swap", "replace", "take"):
        if meth == "swap":
            a = eng.load_ptr(st, args[0])
            b = eng.load_ptr(st, args[1])
            eng.store_ptr(st, args[0], b)
            eng.store_ptr(st, args[1], a)
            return _o(st, UNIT)
        if meth == "replace":
            a = eng.load_ptr(st, args[0])
            eng.store_ptr(st, args[0], args[1])
            return _o(st, a)
    if T == "mem" and meth in ("drop", "forget"):
        return _o(st, UNIT)
    if (Tr == "Deref" and meth == "deref" or Tr == "DerefMut" and meth == "deref_mut" or Tr in ("AsRef", "Borrow", "AsMut", "BorrowMut") and meth in ("as_ref", "borrow", "as_mut", "borrow_mut")) \
            and (T in ("Vec", "String", "Box", "Rc", "Arc", "P", "Q", "T") or (T or "").startswith("[") or eng.mir.resolve(callee) is None):
        p0 = args[0]
        # `&&Vec<T>` / `&&[T]` -> `&[T]`: follow references until the pointee is the container itself
        while isinstance(p0, Ptr):
            inner = eng.load_ptr(st, p0)
            if isinstance(inner, Ptr):
                p0 = inner
            elif isinstance(inner, Struct) and inner.ty == "Box" and inner.fields and isinstance(inner.fields[0], Struct) and inner.fields[0].ty == "Unique":
                # Box { Unique { NonNull { ptr } }, allocator }: the pointee lives in the heap cell
                q = inner.fields[0]
                while isinstance(q, Struct) and q.fields:
                    q = q.fields[0]
                if isinstance(q, Ptr):
                    p0 = q
                break
            else:
                break
        if Tr in ("AsRef", "AsMut", "Borrow", "BorrowMut") and isinstance(p0, Ptr):
            # `impl AsRef<U> for &T` / `&mut T` forwards to T's own impl when the crate has one
            inner = eng.load_ptr(st, p0)
            if isinstance(inner, (Struct, Enum)) and inner.ty not in ("Box", "HashMap", "()"):
                nm = eng.mir.resolve(f"<{inner.ty} as {Tr}>::{meth}")
                if nm is not None:
                    return eng.exec_body(st, eng.mir.bodies[nm], [p0])
        return _o(st, p0)
    if Tr == "Clone" and meth == "clone":
        v = eng.deref_all(st, args[0]) if isinstance(args[0], Ptr) else args[0]
        return _o(st, v)
    if T == "Ordering" and meth in ("then_with", "then", "reverse", "is_eq", "is_ne", "is_lt", "is_gt", "is_le", "is_ge"):
        a = eng.deref_all(st, args[0])
        if isinstance(a, Enum) and a.ty == "Ordering":
            if meth == "then_with":
                return _o(st, a) if a.variant != 1 else eng.call_closure(st, args[1], [])
            if meth == "then":
                return _o(st, a if a.variant != 1 else eng.deref_all(st, args[1]))
            if meth == "reverse":
                return _o(st, Enum("Ordering", 2 - a.variant, ()))
            return _o(st, {"is_eq": a.variant == 1, "is_ne": a.variant != 1, "is_lt": a.variant == 0, "is_gt": a.variant == 2, "is_le": a.variant != 2, "is_ge": a.variant != 0}[meth])
    # ---- BinaryHeap: a bag; pop selects the maximum by executing the element type's own Ord::cmp (branching on symbolic comparisons)
    if T == "BinaryHeap":
        r = binaryheap_ops(eng, st, meth, args, callee)
        if r is not None:
            return r
    # ---- HashSet of concrete keys
    if T == "HashSet" or (Tr == "FromIterator" and "HashSet" in callee):
        r = hashset_ops(eng, st, Tr, meth, args)
        if r is not None:
            return r
    if Tr in ("Into", "From") and meth in ("into", "from") and len(args) == 1:
        v = args[0]
        if isinstance(v, (Struct, Enum)) and v.ty not in ("()", "Box", "HashMap"):
            # a crate `impl From<T> for U`: pick the impl whose parameter type is the value's type
            mt = re.search(r"(?:Into|From)<\s*([^<>]*?)\s*(?:<.*>)?>\s*>::", callee)
            target = (mt.group(1).split("::")[-1] if (mt and Tr == "Into") else (T or "").split("::")[-1])
            for (tr_, nm_) in eng.mir.methods.get((target, "from"), []):
                if tr_ != "From":
                    continue
                mh = re.search(r"\(_1: ([^,()]+?)(?:<.*?>)?(?:,|\))", eng.mir.bodies[nm_].header)
                if mh and mh.group(1).strip().split("::")[-1] == v.ty:
                    return eng.exec_body(st, eng.mir.bodies[nm_], [v])
        if is_scalar(v) or isinstance(v, (Seq, Struct)):
            # numeric widening / identity conversions
            if isinstance(v, int) and rawT and "f64" in (gen or "") + rawT and not isinstance(v, bool):
                return _o(st, eng.flt(v) if eng.mode == "float" else Fraction(v))
            return _o(st, v)
    if T == "Box" and meth == "new":
        return _o(st, eng.heap_alloc(st, args[0]))
    if T == "Box" and meth == "new_uninit":
        # lowering of vec![..]: Box<MaybeUninit<[T; N]>> whose payload is written through (*ptr).1.0.0
        cell = eng.heap_alloc(st, UNINIT)
        return _o(st, Struct("Box", [Struct("Unique", [cell])]))
    if meth == "box_assume_init_into_vec_unsafe":
        bx = args[0]
        cell = bx.fields[0].fields[0]
        v = eng.load_ptr(st, cell)
        try:
            arr = v.fields[1].fields[0].fields[0]
        except Exception:
            raise Unsupported("vec![] payload layout")
        if not isinstance(arr, Seq):
            raise Unsupported("vec![] payload is not an array")
        return _o(st, arr)
    if T in ("String", "impl:str", "str") and meth in ("from", "as_str", "clone", "to_string", "to_owned", "into") and args:
        v = eng.deref_all(st, args[0])
        if isinstance(v, Opaque) and (v.tag.startswith("S:") or v.tag.startswith("str:")):
            return _o(st, v)
    if T in ("String", "impl:str", "str") and meth in ("new", "from", "as_str", "clone", "len", "is_empty", "push_str"):
        return _o(st, Opaque("String"))
    if Tr == "Default" and meth == "default" and T == "String":
        return _o(st, Opaque("String"))
    return None


def _context(eng, st, r):
    r = eng.deref_all(st, r) if isinstance(r, Ptr) else r
    if isinstance(r, Enum) and r.ty == "Result":
        if r.variant == 0:
            return r
        return Enum("Result", 1, [mk_err()])
    if isinstance(r, Enum) and r.ty == "Option":
        if r.variant == 1:
            return Enum("Result", 0, [r.fields[0]])
        return Enum("Result", 1, [mk_err()])
    raise Unsupported("context on " + repr(r))


def value_eq(eng, st, a, b):
    a = eng.deref_all(st, a)
    b = eng.deref_all(st, b)
    if is_scalar(a) and is_scalar(b):
        return eng.binop(st, "Eq", a, b)
    if isinstance(a, Enum) and isinstance(b, Enum):
        if a.variant != b.variant:
            return False
        r = True
        for x, y in zip(a.fields, b.fields):
            r = band(r, value_eq(eng, st, x, y))
        return r
    if isinstance(a, Struct) and isinstance(b, Struct):
        r = True
        for x, y in zip(a.fields, b.fields):
            r = band(r, value_eq(eng, st, x, y))
        return r
    if isinstance(a, Seq) and isinstance(b, Seq):
        if len(a.elems) != len(b.elems):
            return False
        r = True
        for x, y in zip(a.elems, b.elems):
            r = band(r, value_eq(eng, st, x, y))
        return r
    raise Unsupported("value_eq")


def band(a, b):
    if a is True:
        return b
    if b is True:
        return a
    if a is False or b is False:
        return False
    return z3.And(to_z3(a), to_z3(b))


def bor(a, b):
    if a is False:
        return b
    if b is False:
        return a
    if a is True or b is True:
        return True
    return z3.Or(to_z3(a), to_z3(b))


# ---------------------------------------------------------------- float methods


def float_method(eng, st, meth, args, gen):
    if meth in ("abs",):
        return _o(st, fabs(eng, eng.deref_all(st, args[0])))
    if meth in ("min", "max"):
        a, b = num2(eng, st, args)
        return _o(st, fmin(eng, a, b) if meth == "min" else fmax(eng, a, b))
    if meth == "sqrt":
        return _o(st, fsqrt(eng, st, eng.deref_all(st, args[0])))
    if meth == "powi":
        a = eng.deref_all(st, args[0])
        n = args[1]
        if isinstance(n, Struct) and n.ty == "typenum":
            n = n.fields[0]
        elif isinstance(n, Struct):
            # uom: powi(P2::new()) -> typenum marker; exponent is in the generic arg
            m = re.search(r"P(\d)", gen or "")
            if not m:
                raise Unsupported("powi exponent " + str(gen))
            n = int(m.group(1))
        if not isinstance(n, int):
            raise Unsupported("symbolic powi exponent")
        r = eng.flt(1.0) if eng.mode == "float" else Fraction(1)
        for _ in range(abs(n)):
            r = eng.binop(st, "Mul", r, a)
        if n < 0:
            r = eng.binop(st, "Div", eng.flt(1.0), r)
        return _o(st, r)
    if meth == "powf":
        a, b = num2(eng, st, args)
        if is_conc(a) and is_conc(b):
            return _o(st, eng.flt(float(a) ** float(b)))
        raise Unsupported("symbolic powf")
    if meth in ("is_nan", "is_infinite"):
        a = eng.deref_all(st, args[0])
        if eng.mode == "float":
            import math
            return _o(st, math.isnan(a) if meth == "is_nan" else math.isinf(a))
        if isinstance(a, Opaque) and a.tag == "NaN":
            return _o(st, meth == "is_nan")
        if isinstance(a, Opaque) and a.tag in ("+inf", "-inf"):
            return _o(st, meth == "is_infinite")
        if meth == "is_infinite" and is_z3(a):
            return _o(st, z3.Or(a == eng.INF, a == -eng.INF))
        return _o(st, False)
    if meth == "is_finite":
        a = eng.deref_all(st, args[0])
        if eng.mode == "float":
            import math
            return _o(st, math.isfinite(a))
        if isinstance(a, Opaque) and a.tag in ("NaN", "+inf", "-inf"):
            return _o(st, False)
        if is_z3(a):
            return _o(st, z3.And(a != eng.INF, a != -eng.INF))
        return _o(st, True)
    if meth in ("is_sign_negative", "is_sign_positive"):
        a = eng.deref_all(st, args[0])
        # -0.0 is not distinguished in the real model
        r = eng.binop(st, "Lt" if meth == "is_sign_negative" else "Ge", a, eng.flt(0.0))
        return _o(st, r)
    if meth == "signum":
        a = eng.deref_all(st, args[0])
        if is_conc(a):
            return _o(st, eng.flt(1.0 if a >= 0 else -1.0))
        return _o(st, z3.If(a >= 0, z3.RealVal(1), z3.RealVal(-1)))
    if meth in ("floor", "ceil", "round", "trunc"):
        a = eng.deref_all(st, args[0])
        if is_conc(a):
            import math
            f = {"floor": math.floor, "ceil": math.ceil, "trunc": math.trunc, "round": lambda x: math.floor(abs(x) + 0.5) * (1 if x >= 0 else -1)}[meth]
            return _o(st, eng.flt(f(a)))
        raise Unsupported("symbolic " + meth)
    if meth == "clamp":
        a = eng.deref_all(st, args[0])
        lo = eng.deref_all(st, args[1])
        hi = eng.deref_all(st, args[2])
        return _o(st, fmin(eng, fmax(eng, a, lo), hi))
    if meth in ("recip",):
        a = eng.deref_all(st, args[0])
        return _o(st, eng.binop(st, "Div", eng.flt(1.0), a))
    if meth in ("value",):
        return _o(st, eng.deref_all(st, args[0]))
    if meth in ("to_degrees", "to_radians"):
        a = eng.deref_all(st, args[0])
        c = eng.flt(57.29577951308232)
        return _o(st, eng.binop(st, "Mul" if meth == "to_degrees" else "Div", a, c))
    if meth in ("sin", "cos", "tan", "exp", "ln", "atan2", "atan", "asin", "acos"):
        a = eng.deref_all(st, args[0])
        if eng.mode == "float":
            import math
            return _o(st, getattr(math, {"ln": "log"}.get(meth, meth))(*[eng.deref_all(st, x) for x in args]))
        raise Unsupported("transcendental " + meth)
    if meth == "rem_euclid":
        raise Unsupported("rem_euclid")
    return None


# ---------------------------------------------------------------- Option / Result


def option_result(eng, st, T, meth, args, callee=""):
    from engine import Outcome
    v = args[0] if args else None
    some = 1 if T == "Option" else 0  # variant index that carries the success value
    if isinstance(v, Ptr) and meth not in ("as_ref", "as_mut", "is_some", "is_none", "is_ok", "is_err", "as_deref", "take", "insert", "get_or_insert_with", "replace", "is_some_and", "is_none_or"):
        v = eng.load_ptr(st, v)
    if meth in ("unwrap", "expect"):
        if v.variant == some:
            return _o(st, v.fields[0])
        return _panic(st, f"{T}::{meth} on {'None' if T == 'Option' else 'Err'}")
    if meth in ("unwrap_or",):
        return _o(st, v.fields[0] if v.variant == some else args[1])
    if meth in ("unwrap_or_default",):
        if v.variant == some:
            return _o(st, v.fields[0])
        m = re.search(r"(?:Option|Result)::<\s*([^,]*?)(?:<|>|,)", callee)
        inner = m.group(1).strip() if m else ""
        if inner.endswith("Quantity") or inner in ("f64", "f32"):
            return _o(st, eng.flt(0.0))
        if inner in INT_NAMES:
            return _o(st, 0)
        if inner == "bool":
            return _o(st, False)
        nm = eng.mir.resolve(f"<{inner} as Default>::default") or eng.mir.resolve(f"<{inner} as std::default::Default>::default")
        if nm is not None:
            return eng.exec_body(st, eng.mir.bodies[nm], [])
        raise Unsupported("unwrap_or_default None of " + inner)
    if meth in ("unwrap_or_else",):
        if v.variant == some:
            return _o(st, v.fields[0])
        return eng.call_closure(st, args[1], [] if T == "Option" else [v.fields[0]])
    if meth in ("is_some", "is_ok"):
        vv = eng.deref_all(st, v)
        return _o(st, vv.variant == some)
    if meth in ("is_none", "is_err"):
        vv = eng.deref_all(st, v)
        return _o(st, vv.variant != some)
    if meth in ("as_ref", "as_mut", "as_deref"):
        p = v
        vv = eng.load_ptr(st, p)
        if vv.variant != some:
            if T == "Option":
                return _o(st, Enum("Option", 0, ()))
            return _o(st, Enum("Result", 1, [Ptr(p.root, p.path + (0,))]))
        return _o(st, Enum(T, some, [Ptr(p.root, p.path + (0,))]))
    if meth in ("copied", "cloned"):
        if v.variant != some:
            return _o(st, v)
        return _o(st, Enum(T, some, [eng.deref_all(st, v.fields[0])]))
    if meth == "take":
        p = v
        vv = eng.load_ptr(st, p)
        eng.store_ptr(st, p, Enum("Option", 0, ()))
        return _o(st, vv)
    if meth == "ok_or" and T == "Option":
        return _o(st, Enum("Result", 0, [v.fields[0]]) if v.variant == 1 else Enum("Result", 1, [args[1]]))
    if meth == "ok_or_else" and T == "Option":
        if v.variant == 1:
            return _o(st, Enum("Result", 0, [v.fields[0]]))
        res = eng.call_closure(st, args[1], [])
        return [Outcome(o.st, o.kind, Enum("Result", 1, [o.val]) if o.kind == "ret" else o.val) for o in res]
    if meth == "ok" and T == "Result":
        return _o(st, Enum("Option", 1, [v.fields[0]]) if v.variant == 0 else Enum("Option", 0, ()))
    if meth == "err" and T == "Result":
        return _o(st, Enum("Option", 1, [v.fields[0]]) if v.variant == 1 else Enum("Option", 0, ()))
    if meth in ("map", "and_then", "map_err", "map_or", "map_or_else", "is_some_and", "filter", "or_else", "inspect"):
        if meth == "map_err":
            if v.variant == 0:
                return _o(st, v)
            res = eng.call_closure(st, args[1], [v.fields[0]])
            return [Outcome(o.st, o.kind, Enum("Result", 1, [o.val]) if o.kind == "ret" else o.val) for o in res]
        if meth == "map":
            if v.variant != some:
                return _o(st, v)
            res = eng.call_closure(st, args[1], [v.fields[0]])
            return [Outcome(o.st, o.kind, Enum(T, some, [o.val]) if o.kind == "ret" else o.val) for o in res]
        if meth == "and_then":
            if v.variant != some:
                return _o(st, v)
            return eng.call_closure(st, args[1], [v.fields[0]])
        if meth == "map_or":
            if v.variant != some:
                return _o(st, args[1])
            return eng.call_closure(st, args[2], [v.fields[0]])
        if meth == "is_some_and":
            vv = eng.deref_all(st, v) if isinstance(v, Ptr) else v
            if vv.variant != some:
                return _o(st, False)
            return eng.call_closure(st, args[1], [vv.fields[0]])
        if meth == "or_else":
            if v.variant == some:
                return _o(st, v)
            return eng.call_closure(st, args[1], [] if T == "Option" else [v.fields[0]])
    if meth in ("or",):
        return _o(st, v if v.variant == some else args[1])
    if meth in ("and",):
        return _o(st, args[1] if v.variant == some else v)
    if meth == "insert" and T == "Option":
        p = v
        eng.store_ptr(st, p, Enum("Option", 1, [args[1]]))
        return _o(st, Ptr(p.root, p.path + (0,)))
    if meth == "replace" and T == "Option":
        p = v
        old = eng.load_ptr(st, p)
        eng.store_ptr(st, p, Enum("Option", 1, [args[1]]))
        return _o(st, old)
    return None


# ---------------------------------------------------------------- hash maps


def _map_of(eng, st, p):
    q = p
    v = eng.load_ptr(st, q) if isinstance(q, Ptr) else q
    while isinstance(v, Ptr):
        q = v
        v = eng.load_ptr(st, q)
    if isinstance(v, Opaque) and v.tag.startswith("HashMap"):
        v = Struct("HashMap", [Seq(())])
    if not (isinstance(v, Struct) and v.ty == "HashMap"):
        raise Unsupported(f"expected HashMap, got {v!r}")
    return v, q


def _key_eq(a, b):
    if isinstance(a, Opaque) and isinstance(b, Opaque) and a.tag.startswith("S:") and b.tag.startswith("S:"):
        return a.tag == b.tag
    if isinstance(a, Enum) and isinstance(b, Enum) and not a.fields and not b.fields:
        return a.variant == b.variant
    if isinstance(a, (int, str)) and isinstance(b, (int, str)):
        return a == b
    if isinstance(a, Struct) and isinstance(b, Struct) and len(a.fields) == 1 and isinstance(a.fields[0], int) and isinstance(b.fields[0], int):
        return a.fields[0] == b.fields[0]
    raise Unsupported("HashMap key comparison on non-concrete keys")


def hashmap_ops(eng, st, meth, args):
    if meth in ("new", "default", "with_capacity"):
        return _o(st, Struct("HashMap", [Seq(())]))
    m, q = _map_of(eng, st, args[0])
    items = m.fields[0].elems
    if meth == "is_empty":
        return _o(st, len(items) == 0)
    if meth == "len":
        return _o(st, len(items))
    if meth in ("get", "contains_key", "get_mut"):
        k = eng.deref_all(st, args[1])
        for i, it in enumerate(items):
            if _key_eq(it.fields[0], k):
                if meth == "contains_key":
                    return _o(st, True)
                return _o(st, Enum("Option", 1, [Ptr(q.root, q.path + (0, i, 1))]))
        return _o(st, False if meth == "contains_key" else Enum("Option", 0, ()))
    if meth in ("values", "keys", "iter"):
        n = len(items)
        if meth == "iter":
            return _o(st, IterV("owned", Seq([Struct("()", [Ptr(q.root, q.path + (0, i, 0)), Ptr(q.root, q.path + (0, i, 1))]) for i in range(n)]), 0, n))
        col = 1 if meth == "values" else 0
        return _o(st, IterV("owned", Seq([Ptr(q.root, q.path + (0, i, col)) for i in range(n)]), 0, n))
    if meth == "insert":
        k, v = args[1], args[2]
        for i, it in enumerate(items):
            if _key_eq(it.fields[0], k):
                new = list(items)
                new[i] = Struct("()", [k, v])
                eng.store_ptr(st, q, Struct("HashMap", [Seq(new)]))
                return _o(st, Enum("Option", 1, [it.fields[1]]))
        eng.store_ptr(st, q, Struct("HashMap", [Seq(items + (Struct("()", [k, v]),))]))
        return _o(st, Enum("Option", 0, ()))
    return None


def binaryheap_ops(eng, st, meth, args, callee):
    from engine import Outcome
    if meth in ("new", "with_capacity", "default"):
        return _o(st, Struct("BinaryHeap", [Seq(())]))
    a = eng.deref_all(st, args[0])
    if not (isinstance(a, Struct) and a.ty == "BinaryHeap"):
        return None
    items = tuple(a.fields[0].elems)
    if meth == "len":
        return _o(st, len(items))
    if meth == "is_empty":
        return _o(st, len(items) == 0)
    if meth == "push":
        eng.store_ptr(st, args[0], Struct("BinaryHeap", [Seq(items + (args[1],))]))
        return _o(st, UNIT)
    if meth == "clear":
        eng.store_ptr(st, args[0], Struct("BinaryHeap", [Seq(())]))
        return _o(st, UNIT)
    if meth in ("pop", "peek"):
        if not items:
            return _o(st, Enum("Option", 0, ()))
        ety = re.search(r"BinaryHeap::<\s*([^<>]*?)\s*(?:<.*>)?>::", callee)
        tname = items[0].ty if isinstance(items[0], (Struct, Enum)) else (ety.group(1).split("::")[-1] if ety else None)
        nm = eng.mir.resolve(f"<{tname} as Ord>::cmp") if tname else None
        if nm is None:
            raise Unsupported(f"BinaryHeap::{meth}: no Ord::cmp body for {tname}")
        body = eng.mir.bodies[nm]
        # tournament: (state, index of the best so far); every comparison may fork the path
        front = [(st, 0)]
        for j in range(1, len(items)):
            nxt = []
            for (s, best) in front:
                pa, pb = eng.heap_alloc(s, items[best]), eng.heap_alloc(s, items[j])
                for o in eng.exec_body(s, body, [pa, pb]):
                    if o.kind != "ret":
                        return [o]
                    v = o.val
                    if not (isinstance(v, Enum) and v.ty == "Ordering"):
                        raise Unsupported("BinaryHeap: symbolic Ordering")
                    # cmp(best, j) == Less -> j is larger
                    nxt.append((o.st, j if v.variant == 0 else best))
            front = nxt
        outs = []
        for (s, best) in front:
            if meth == "pop":
                rest = items[:best] + items[best + 1:]
                eng.store_ptr(s, args[0], Struct("BinaryHeap", [Seq(rest)]))
                outs.append(Outcome(s, "ret", Enum("Option", 1, [items[best]])))
            else:
                outs.append(Outcome(s, "ret", Enum("Option", 1, [eng.heap_alloc(s, items[best])])))
        return outs
    return None


def hashset_ops(eng, st, Tr, meth, args):
    from engine import Outcome
    if meth == "from_iter":
        it = _as_iter(eng, st, args[0]) if not isinstance(args[0], IterV) else args[0]
        outs = []
        for (s, items) in iter_all_items(eng, st, it):
            keys = []
            for x in items:
                x = eng.deref_all(s, x)
                if not any(_key_eq(x, y) for y in keys):
                    keys.append(x)
            outs.append(Outcome(s, "ret", Struct("HashSet", [Seq(keys)])))
        return outs
    if meth in ("new", "default"):
        return _o(st, Struct("HashSet", [Seq(())]))
    a = eng.deref_all(st, args[0])
    if not (isinstance(a, Struct) and a.ty == "HashSet"):
        return None
    if meth == "difference":
        b = eng.deref_all(st, args[1])
        keep = [x for x in a.fields[0].elems if not any(_key_eq(x, y) for y in b.fields[0].elems)]
        return _o(st, IterV("owned", Seq(keep), 0, len(keep)))
    if meth == "len":
        return _o(st, len(a.fields[0].elems))
    if meth == "is_empty":
        return _o(st, len(a.fields[0].elems) == 0)
    if meth == "contains":
        k = eng.deref_all(st, args[1])
        return _o(st, any(_key_eq(x, k) for x in a.fields[0].elems))
    return None


# ---------------------------------------------------------------- sequences


def _seq_of(eng, st, p):
    """p: Ptr to a Vec/slice/array (possibly windowed) or a Seq value -> (Seq, ptr or None)"""
    if isinstance(p, Seq):
        return p, None
    q = p
    v = eng.load_ptr(st, q)
    while isinstance(v, Ptr):
        q = v
        v = eng.load_ptr(st, q)
    if not isinstance(v, Seq):
        raise Unsupported(f"expected sequence, got {v!r}")
    return v, q


def _elem_ptr(q, i):
    if q.win is not None:
        return Ptr(q.root, q.path + (q.win[0] + i,))
    return Ptr(q.root, q.path + (i,))


def seq_ops(eng, st, T, Tr, meth, args, gen, rawT):
    from engine import Outcome, PanicExc
    isseq = T in ("Vec", "impl:[T]", "[T]", "slice", "impl:Vec") or (T or "").startswith("[") or (T or "").startswith("impl:[")
    if T == "Vec" and Tr is None and meth in ("new", "with_capacity"):
        return _o(st, Seq(()))
    if T == "Vec" and Tr == "Default" and meth == "default":
        return _o(st, Seq(()))
    if meth == "from_elem" and T in ("vec", "Vec"):
        n = args[1]
        if not isinstance(n, int):
            raise Unsupported("vec![x; symbolic]")
        return _o(st, Seq([args[0]] * n))
    if meth in ("into_vec", "to_vec") and T in ("impl:[T]", "slice", "hack"):
        v = args[0]
        if isinstance(v, Ptr):
            v = eng.load_ptr(st, v)
            while isinstance(v, Ptr):
                v = eng.load_ptr(st, v)
        return _o(st, v)
    if T == "Box" and meth in ("new_uninit_slice", "assume_init"):
        return None
    if not isseq and not (Tr in ("Index", "IndexMut", "Deref", "DerefMut", "IntoIterator", "Extend", "FromIterator", "PartialEq", "Clone") and T in ("Vec",)):
        return None
    if Tr in ("Deref", "DerefMut") and meth in ("deref", "deref_mut"):
        return _o(st, args[0])
    if Tr == "Clone" and meth == "clone":
        v, _ = _seq_of(eng, st, args[0])
        return _o(st, v)
    if meth in ("as_slice", "as_mut_slice", "as_ref", "as_mut"):
        return _o(st, args[0])
    if meth == "len":
        v, _ = _seq_of(eng, st, args[0])
        return _o(st, len(v.elems))
    if meth == "is_empty":
        v, _ = _seq_of(eng, st, args[0])
        return _o(st, len(v.elems) == 0)
    if meth in ("reserve", "reserve_exact", "shrink_to_fit"):
        return _o(st, UNIT)
    if meth == "push":
        v, q = _seq_of(eng, st, args[0])
        eng.store_ptr(st, q, Seq(v.elems + (args[1],), v.ety))
        return _o(st, UNIT)
    if meth == "pop":
        v, q = _seq_of(eng, st, args[0])
        if not v.elems:
            return _o(st, Enum("Option", 0, ()))
        eng.store_ptr(st, q, Seq(v.elems[:-1], v.ety))
        return _o(st, Enum("Option", 1, [v.elems[-1]]))
    if meth == "clear":
        v, q = _seq_of(eng, st, args[0])
        eng.store_ptr(st, q, Seq(()))
        return _o(st, UNIT)
    if meth == "truncate":
        v, q = _seq_of(eng, st, args[0])
        n = args[1]
        if not isinstance(n, int):
            raise Unsupported("symbolic truncate")
        eng.store_ptr(st, q, Seq(v.elems[:n]))
        return _o(st, UNIT)
    if meth == "insert":
        v, q = _seq_of(eng, st, args[0])
        i = args[1]
        if not isinstance(i, int):
            raise Unsupported("Vec::insert at symbolic index")
        if i > len(v.elems):
            return _panic(st, "Vec::insert index out of bounds")
        eng.store_ptr(st, q, Seq(v.elems[:i] + (args[2],) + v.elems[i:], v.ety))
        return _o(st, UNIT)
    if meth == "remove":
        v, q = _seq_of(eng, st, args[0])
        i = args[1]
        if not isinstance(i, int):
            raise Unsupported("Vec::remove at symbolic index")
        if i >= len(v.elems):
            return _panic(st, "Vec::remove index out of bounds")
        eng.store_ptr(st, q, Seq(v.elems[:i] + v.elems[i + 1 :], v.ety))
        return _o(st, v.elems[i])
    if meth == "swap":
        v, q = _seq_of(eng, st, args[0])
        i, j = args[1], args[2]
        e = list(v.elems)
        e[i], e[j] = e[j], e[i]
        eng.store_ptr(st, q, Seq(e))
        return _o(st, UNIT)
    if meth in ("extend_from_slice", "extend", "append"):
        v, q = _seq_of(eng, st, args[0])
        src = args[1]
        if isinstance(src, IterV):
            res = iter_collect(eng, st, src)
            outs = []
            for o in res:
                if o.kind != "ret":
                    outs.append(o)
                    continue
                v2, q2 = _seq_of(eng, o.st, args[0])
                eng.store_ptr(o.st, q2, Seq(v2.elems + o.val.elems))
                outs.append(Outcome(o.st, "ret", UNIT))
            return outs
        w, wq = _seq_of(eng, st, src)
        eng.store_ptr(st, q, Seq(v.elems + w.elems))
        if meth == "append":
            eng.store_ptr(st, wq, Seq(()))
        return _o(st, UNIT)
    if meth in ("first", "last", "first_mut", "last_mut"):
        v, q = _seq_of(eng, st, args[0])
        if not v.elems:
            return _o(st, Enum("Option", 0, ()))
        i = 0 if meth.startswith("first") else len(v.elems) - 1
        return _o(st, Enum("Option", 1, [_elem_ptr(q, i)]))
    if meth in ("get", "get_mut"):
        v, q = _seq_of(eng, st, args[0])
        i = args[1]
        if isinstance(i, int):
            if i < len(v.elems):
                return _o(st, Enum("Option", 1, [_elem_ptr(q, i)]))
            return _o(st, Enum("Option", 0, ()))
        raise Unsupported("get at symbolic index")
    if meth in ("get_unchecked", "get_unchecked_mut"):
        v, q = _seq_of(eng, st, args[0])
        i = args[1]
        if isinstance(i, int):
            if i >= len(v.elems):
                return _panic(st, "get_unchecked out of bounds (UB)")
            return _o(st, _elem_ptr(q, i))
        raise Unsupported("get_unchecked at symbolic index")
    if Tr in ("Index", "IndexMut") and meth in ("index", "index_mut"):
        v, q = _seq_of(eng, st, args[0])
        i = args[1]
        if isinstance(i, int):
            if i < 0 or i >= len(v.elems):
                return _panic(st, f"index out of bounds: the len is {len(v.elems)} but the index is {i}")
            return _o(st, _elem_ptr(q, i))
        if isinstance(i, Struct) and i.ty in ("Range", "RangeFrom", "RangeTo", "RangeFull", "RangeInclusive", "RangeToInclusive"):
            n = len(v.elems)
            a, b = 0, n
            if i.ty == "Range":
                a, b = i.fields
            elif i.ty == "RangeFrom":
                a = i.fields[0]
            elif i.ty == "RangeTo":
                b = i.fields[0]
            elif i.ty == "RangeInclusive":
                a, b = i.fields[0], i.fields[1] + 1
            elif i.ty == "RangeToInclusive":
                b = i.fields[0] + 1
            if not (isinstance(a, int) and isinstance(b, int)):
                raise Unsupported("symbolic range index")
            if a > b or b > n:
                return _panic(st, "slice index out of range")
            base = q.win[0] if q.win else 0
            return _o(st, Ptr(q.root, q.path, (base + a, b - a)))
        if is_z3(i):
            # fork on the index value
            outs = []
            for k in range(len(v.elems)):
                if eng.feasible(st, i == k):
                    s2 = st.fork()
                    s2.assume(i == k)
                    outs.append(Outcome(s2, "ret", _elem_ptr(q, k)))
            oob = z3.Or(i < 0, i >= len(v.elems))
            if eng.feasible(st, oob):
                s2 = st.fork()
                s2.assume(oob)
                outs.append(Outcome(s2, "panic", "index out of bounds (symbolic index)"))
            return outs
        raise Unsupported(f"index with {i!r}")
    if meth in ("iter", "iter_mut"):
        v, q = _seq_of(eng, st, args[0])
        return _o(st, IterV("slice", q, 0, len(v.elems)))
    if Tr == "IntoIterator" and meth == "into_iter":
        a = args[0]
        if isinstance(a, Ptr):
            v, q = _seq_of(eng, st, a)
            return _o(st, IterV("slice", q, 0, len(v.elems)))
        if isinstance(a, Seq):
            return _o(st, IterV("owned", a, 0, len(a.elems)))
    if meth == "windows":
        v, q = _seq_of(eng, st, args[0])
        return _o(st, IterV("windows", q, 0, len(v.elems), args[1]))
    if meth in ("chunks", "chunks_exact"):
        raise Unsupported("chunks")
    if meth == "contains":
        v, q = _seq_of(eng, st, args[0])
        x = eng.deref_all(st, args[1])
        r = False
        for e in v.elems:
            r = bor(r, value_eq(eng, st, e, x))
        return _o(st, r)
    if meth == "to_vec" or meth == "to_owned":
        v, q = _seq_of(eng, st, args[0])
        return _o(st, v)
    if meth == "split_at":
        v, q = _seq_of(eng, st, args[0])
        k = args[1]
        base = q.win[0] if q.win else 0
        return _o(st, Struct("()", [Ptr(q.root, q.path, (base, k)), Ptr(q.root, q.path, (base + k, len(v.elems) - k))]))
    if meth in ("drain",):
        v, q = _seq_of(eng, st, args[0])
        r = args[1]
        n = len(v.elems)
        a, b = 0, n
        if isinstance(r, Struct) and r.ty == "Range":
            a, b = r.fields
        elif isinstance(r, Struct) and r.ty == "RangeFrom":
            a = r.fields[0]
        elif isinstance(r, Struct) and r.ty == "RangeTo":
            b = r.fields[0]
        elif isinstance(r, Struct) and r.ty == "RangeFull":
            pass
        else:
            raise Unsupported("drain range")
        if not (isinstance(a, int) and isinstance(b, int)):
            raise Unsupported("symbolic drain")
        taken = v.elems[a:b]
        eng.store_ptr(st, q, Seq(v.elems[:a] + v.elems[b:]))
        return _o(st, IterV("owned", Seq(taken), 0, len(taken)))
    if Tr == "PartialEq" and meth in ("eq", "ne"):
        a, _ = _seq_of(eng, st, args[0])
        b, _ = _seq_of(eng, st, args[1])
        r = value_eq(eng, st, a, b)
        return _o(st, r if meth == "eq" else eng.unop(st, "Not", r))
    if Tr == "FromIterator" and meth == "from_iter":
        return iter_collect(eng, st, args[0])
    return None


# ---------------------------------------------------------------- iterators


def iter_next(eng, st, it):
    """-> [(st, new_iter, item or None)] ; item None = exhausted. May fork (closures)."""
    k = it.kind
    if k == "slice":
        q, pos, end = it.d
        if pos >= end:
            return [(st, it, None)]
        return [(st, IterV("slice", q, pos + 1, end), _elem_ptr(q, pos))]
    if k == "slice_rev":
        q, pos, end = it.d
        if pos >= end:
            return [(st, it, None)]
        return [(st, IterV("slice_rev", q, pos, end - 1), _elem_ptr(q, end - 1))]
    if k == "owned":
        seq, pos, end = it.d
        if pos >= end:
            return [(st, it, None)]
        return [(st, IterV("owned", seq, pos + 1, end), seq.elems[pos])]
    if k == "owned_rev":
        seq, pos, end = it.d
        if pos >= end:
            return [(st, it, None)]
        return [(st, IterV("owned_rev", seq, pos, end - 1), seq.elems[end - 1])]
    if k == "range":
        a, b = it.d
        if not (isinstance(a, int) and isinstance(b, int)):
            raise Unsupported("symbolic range iteration")
        if a >= b:
            return [(st, it, None)]
        return [(st, IterV("range", a + 1, b), a)]
    if k == "range_rev":
        a, b = it.d
        if a >= b:
            return [(st, it, None)]
        return [(st, IterV("range_rev", a, b - 1), b - 1)]
    if k == "windows":
        q, pos, n, size = it.d
        if pos + size > n:
            return [(st, it, None)]
        base = q.win[0] if q.win else 0
        return [(st, IterV("windows", q, pos + 1, n, size), Ptr(q.root, q.path, (base + pos, size)))]
    if k == "map":
        inner, f = it.d
        outs = []
        for (s1, in2, item) in iter_next(eng, st, inner):
            if item is None:
                outs.append((s1, IterV("map", in2, f), None))
                continue
            for o in eng.call_closure(s1, f, [item]):
                if o.kind != "ret":
                    raise _PanicInIter(o)
                outs.append((o.st, IterV("map", in2, f), o.val))
        return outs
    if k in ("copied", "cloned"):
        (inner,) = it.d
        outs = []
        for (s1, in2, item) in iter_next(eng, st, inner):
            outs.append((s1, IterV(k, in2), None if item is None else eng.deref_all(s1, item)))
        return outs
    if k == "enumerate":
        inner, n = it.d
        outs = []
        for (s1, in2, item) in iter_next(eng, st, inner):
            if item is None:
                outs.append((s1, IterV("enumerate", in2, n), None))
            else:
                outs.append((s1, IterV("enumerate", in2, n + 1), Struct("()", [n, item])))
        return outs
    if k == "zip":
        a, b = it.d
        outs = []
        for (s1, a2, x) in iter_next(eng, st, a):
            if x is None:
                outs.append((s1, IterV("zip", a2, b), None))
                continue
            for (s2, b2, y) in iter_next(eng, s1, b):
                if y is None:
                    outs.append((s2, IterV("zip", a2, b2), None))
                else:
                    outs.append((s2, IterV("zip", a2, b2), Struct("()", [x, y])))
        return outs
    if k == "chain":
        a, b = it.d
        outs = []
        if a is not None:
            for (s1, a2, x) in iter_next(eng, st, a):
                if x is None:
                    outs.extend(iter_next(eng, s1, IterV("chain", None, b)))
                else:
                    outs.append((s1, IterV("chain", a2, b), x))
            return outs
        for (s1, b2, y) in iter_next(eng, st, b):
            outs.append((s1, IterV("chain", None, b2), y))
        return outs
    if k == "rev":
        (inner,) = it.d
        ik = inner.kind
        if ik in ("slice", "owned", "range"):
            return _wrap_rev(iter_next(eng, st, IterV(ik + "_rev", *inner.d)))
        if ik in ("slice_rev", "owned_rev", "range_rev"):
            return _wrap_rev(iter_next(eng, st, inner))
        if ik == "enumerate":
            raise Unsupported("rev of enumerate")
        raise Unsupported("rev of " + ik)
    if k == "skip":
        inner, n = it.d
        cur = [(st, inner)]
        for _ in range(n):
            nxt = []
            for (s1, i1) in cur:
                for (s2, i2, x) in iter_next(eng, s1, i1):
                    nxt.append((s2, i2))
            cur = nxt
        outs = []
        for (s1, i1) in cur:
            for (s2, i2, x) in iter_next(eng, s1, i1):
                outs.append((s2, IterV("skip", i2, 0), x))
        return outs
    if k == "take":
        inner, n = it.d
        if n <= 0:
            return [(st, it, None)]
        return [(s1, IterV("take", i2, n - 1), x) for (s1, i2, x) in iter_next(eng, st, inner)]
    if k == "filter":
        inner, f = it.d
        outs = []
        for (s1, in2, item) in iter_next(eng, st, inner):
            if item is None:
                outs.append((s1, IterV("filter", in2, f), None))
                continue
            cell = eng.heap_alloc(s1, item)
            for o in eng.call_closure(s1, f, [cell]):
                if o.kind != "ret":
                    raise _PanicInIter(o)
                t = eng.truth(o.st, o.val)
                if t is True:
                    outs.append((o.st, IterV("filter", in2, f), item))
                elif t is False:
                    outs.extend(iter_next(eng, o.st, IterV("filter", in2, f)))
                else:
                    if eng.feasible(o.st, o.val):
                        s2 = o.st.fork()
                        s2.assume(o.val)
                        outs.append((s2, IterV("filter", in2, f), item))
                    if eng.feasible(o.st, z3.Not(o.val)):
                        s3 = o.st.fork()
                        s3.assume(z3.Not(o.val))
                        outs.extend(iter_next(eng, s3, IterV("filter", in2, f)))
        return outs
    if k == "filter_map":
        inner, f = it.d
        outs = []
        for (s1, in2, item) in iter_next(eng, st, inner):
            if item is None:
                outs.append((s1, IterV("filter_map", in2, f), None))
                continue
            for o in eng.call_closure(s1, f, [item]):
                if o.kind != "ret":
                    raise _PanicInIter(o)
                if o.val.variant == 1:
                    outs.append((o.st, IterV("filter_map", in2, f), o.val.fields[0]))
                else:
                    outs.extend(iter_next(eng, o.st, IterV("filter_map", in2, f)))
        return outs
    if k == "once":
        (x,) = it.d
        if x is None:
            return [(st, it, None)]
        return [(st, IterV("once", None), x)]
    raise Unsupported("iterator kind " + k)


def _wrap_rev(res):
    return [(s, IterV("rev", IterV(i2.kind.replace("_rev", ""), *i2.d)) if False else IterV("rev", i2), x) for (s, i2, x) in res]


class _PanicInIter(Exception):
    def __init__(self, o):
        self.o = o


def iter_all_items(eng, st, it, limit=64):
    """exhaust iterator -> [(st, [items])]"""
    cur = [(st, it, [])]
    done = []
    steps = 0
    while cur:
        steps += 1
        if steps > limit * 8:
            raise Unsupported("iterator too long")
        nxt = []
        for (s, i, acc) in cur:
            for (s2, i2, x) in iter_next(eng, s, i):
                if x is None:
                    done.append((s2, acc))
                else:
                    nxt.append((s2, i2, acc + [x]))
        cur = nxt
    return done


def iter_collect(eng, st, it, gen=None):
    from engine import Outcome
    try:
        res = iter_all_items(eng, st, it)
    except _PanicInIter as p:
        return [p.o]
    outs = []
    for (s, items) in res:
        if gen and ("Result<" in gen or gen.strip().startswith("Result") or "result::Result" in gen):
            vals = []
            err = None
            for x in items:
                if x.variant == 0:
                    vals.append(x.fields[0])
                else:
                    err = x
                    break
            outs.append(Outcome(s, "ret", Enum("Result", 1, [err.fields[0]]) if err is not None else Enum("Result", 0, [Seq(vals)])))
        elif gen and ("Option<" in gen or "option::Option" in gen):
            vals = []
            none = False
            for x in items:
                if x.variant == 1:
                    vals.append(x.fields[0])
                else:
                    none = True
                    break
            outs.append(Outcome(s, "ret", Enum("Option", 0, ()) if none else Enum("Option", 1, [Seq(vals)])))
        else:
            outs.append(Outcome(s, "ret", Seq(items)))
    return outs


def iter_fold_sum(eng, st, it, product=False):
    from engine import Outcome
    if isinstance(it, Ptr):
        it = eng.load_ptr(st, it)
    try:
        res = iter_all_items(eng, st, it)
    except _PanicInIter as p:
        return [p.o]
    outs = []
    for (s, items) in res:
        vals = [eng.deref_all(s, x) for x in items]
        if not vals:
            acc = eng.flt(0.0) if not product else eng.flt(1.0)
        else:
            acc = vals[0]
            if is_real(acc) and eng.mode == "real":
                # f64 sum starts from -0.0/0.0: same in the real model
                pass
            for v in vals[1:]:
                acc = eng.binop(s, "Mul" if product else "Add", acc, v)
        outs.append(Outcome(s, "ret", acc))
    return outs


def _get_iter(eng, st, a):
    """args[0] may be the iterator by value or a &mut to it"""
    if isinstance(a, Ptr):
        return eng.load_ptr(st, a), a
    return a, None


def iter_ops(eng, st, T, Tr, meth, args, gen):
    from engine import Outcome
    if Tr == "IntoIterator" and meth == "into_iter":
        a = args[0]
        if isinstance(a, IterV):
            return _o(st, a)
        if isinstance(a, Struct) and a.ty == "Range":
            return _o(st, IterV("range", a.fields[0], a.fields[1]))
        if isinstance(a, Struct) and a.ty == "RangeInclusive":
            return _o(st, IterV("range", a.fields[0], a.fields[1] + 1))
        if isinstance(a, Enum) and a.ty == "Option":
            return _o(st, IterV("once", a.fields[0] if a.variant == 1 else None))
        return None
    if Tr not in ("Iterator", "DoubleEndedIterator", "ExactSizeIterator") and T not in ("iter",):
        return None
    if T == "iter" and meth in ("zip",):
        return _o(st, IterV("zip", _as_iter(eng, st, args[0]), _as_iter(eng, st, args[1])))
    if T == "iter" and meth == "once":
        return _o(st, IterV("once", args[0]))
    if T == "iter" and meth == "repeat":
        raise Unsupported("iter::repeat")
    it, itp = _get_iter(eng, st, args[0])
    if isinstance(it, Struct) and it.ty == "Range":
        it = IterV("range", it.fields[0], it.fields[1])
        range_struct = True
    else:
        range_struct = False
    if not isinstance(it, IterV):
        raise Unsupported(f"iterator method {meth} on {it!r}")
    # adaptors
    if meth == "map":
        return _o(st, IterV("map", it, args[1]))
    if meth in ("copied", "cloned"):
        return _o(st, IterV(meth, it))
    if meth == "enumerate":
        return _o(st, IterV("enumerate", it, 0))
    if meth == "zip":
        return _o(st, IterV("zip", it, _as_iter(eng, st, args[1])))
    if meth == "chain":
        return _o(st, IterV("chain", it, _as_iter(eng, st, args[1])))
    if meth == "rev":
        return _o(st, IterV("rev", it))
    if meth == "skip":
        return _o(st, IterV("skip", it, args[1]))
    if meth == "take":
        return _o(st, IterV("take", it, args[1]))
    if meth == "filter":
        return _o(st, IterV("filter", it, args[1]))
    if meth == "filter_map":
        return _o(st, IterV("filter_map", it, args[1]))
    if meth in ("by_ref", "into_iter", "peekable", "fuse"):
        return _o(st, args[0] if meth == "by_ref" else it)
    if meth == "step_by":
        raise Unsupported("step_by")
    # consumers
    try:
        if meth == "next" or meth == "next_back":
            if meth == "next_back":
                it = IterV("rev", it)
            outs = []
            for (s1, it2, x) in iter_next(eng, st, it):
                if meth == "next_back":
                    it2 = it2.d[0]
                if itp is not None:
                    if range_struct:
                        k = it2.kind
                        eng.store_ptr(s1, itp, Struct("Range", list(it2.d)))
                    else:
                        eng.store_ptr(s1, itp, it2)
                outs.append(Outcome(s1, "ret", Enum("Option", 0, ()) if x is None else Enum("Option", 1, [x])))
            return outs
        if meth == "collect":
            return iter_collect(eng, st, it, gen)
        if meth in ("sum", "product"):
            return iter_fold_sum(eng, st, it, product=(meth == "product"))
        if meth == "count":
            return [Outcome(s, "ret", len(items)) for (s, items) in iter_all_items(eng, st, it)]
        if meth == "len":
            return [Outcome(s, "ret", len(items)) for (s, items) in iter_all_items(eng, st.fork(), it)][:1]
        if meth == "last":
            return [Outcome(s, "ret", Enum("Option", 1, [items[-1]]) if items else Enum("Option", 0, ())) for (s, items) in iter_all_items(eng, st, it)]
        if meth == "nth":
            n = args[1]
            cur = IterV("skip", it, n)
            outs = []
            for (s1, it2, x) in iter_next(eng, st, cur):
                if itp is not None:
                    eng.store_ptr(s1, itp, it2.d[0])
                outs.append(Outcome(s1, "ret", Enum("Option", 0, ()) if x is None else Enum("Option", 1, [x])))
            return outs
        if meth in ("fold", "try_fold", "for_each", "all", "any", "position", "find", "find_map", "max_by", "min_by", "reduce", "try_for_each"):
            return iter_consume(eng, st, it, itp, meth, args)
        if meth in ("max", "min"):
            outs = []
            for (s, items) in iter_all_items(eng, st, it):
                if not items:
                    outs.append(Outcome(s, "ret", Enum("Option", 0, ())))
                    continue
                vals = [eng.deref_all(s, x) for x in items]
                acc = vals[0]
                accp = items[0]
                if all(is_conc(v) for v in vals):
                    idx = max(range(len(vals)), key=lambda i: (vals[i], i)) if meth == "max" else min(range(len(vals)), key=lambda i: (vals[i], -i))
                    outs.append(Outcome(s, "ret", Enum("Option", 1, [items[idx]])))
                else:
                    raise Unsupported("symbolic Iterator::max/min (Ord)")
            return outs
    except _PanicInIter as p:
        return [p.o]
    return None


def _as_iter(eng, st, a):
    if isinstance(a, IterV):
        return a
    if isinstance(a, Ptr):
        v, q = _seq_of(eng, st, a)
        return IterV("slice", q, 0, len(v.elems))
    if isinstance(a, Seq):
        return IterV("owned", a, 0, len(a.elems))
    if isinstance(a, Struct) and a.ty == "Range":
        return IterV("range", a.fields[0], a.fields[1])
    raise Unsupported(f"as_iter {a!r}")


def iter_consume(eng, st, it, itp, meth, args):
    """closure-driven consumers, executed item by item with forking"""
    from engine import Outcome
    outs = []
    if meth in ("fold",):
        cur = [(st, it, args[1])]
        f = args[2]
    elif meth == "try_fold":
        cur = [(st, it, args[1])]
        f = args[2]
    elif meth == "reduce":
        first = iter_next(eng, st, it)
        cur = []
        for (s1, it2, x) in first:
            if x is None:
                outs.append(Outcome(s1, "ret", Enum("Option", 0, ())))
            else:
                cur.append((s1, it2, x))
        f = args[1]
    else:
        cur = [(st, it, 0)]
        f = args[1]
    fcell = None
    guard = 0
    while cur:
        guard += 1
        if guard > 200:
            raise Unsupported("iterator consumer too long")
        nxt = []
        for (s, i, acc) in cur:
            for (s1, i2, x) in iter_next(eng, s, i):
                if x is None:
                    if itp is not None:
                        eng.store_ptr(s1, itp, i2)
                    if meth == "fold":
                        outs.append(Outcome(s1, "ret", acc))
                    elif meth == "reduce":
                        outs.append(Outcome(s1, "ret", Enum("Option", 1, [acc])))
                    elif meth == "try_fold":
                        outs.append(Outcome(s1, "ret", _try_wrap_ok(acc, args)))
                    elif meth in ("for_each",):
                        outs.append(Outcome(s1, "ret", UNIT))
                    elif meth == "try_for_each":
                        outs.append(Outcome(s1, "ret", Enum("Result", 0, [UNIT])))
                    elif meth == "all":
                        outs.append(Outcome(s1, "ret", True))
                    elif meth == "any":
                        outs.append(Outcome(s1, "ret", False))
                    elif meth in ("position", "find", "find_map"):
                        outs.append(Outcome(s1, "ret", Enum("Option", 0, ())))
                    continue
                if meth in ("fold", "reduce", "try_fold"):
                    cargs = [acc, x]
                elif meth == "find":
                    cargs = [eng.heap_alloc(s1, x)]
                else:
                    cargs = [x]
                for o in eng.call_closure(s1, f, cargs):
                    if o.kind != "ret":
                        outs.append(o)
                        continue
                    if meth in ("fold", "reduce"):
                        nxt.append((o.st, i2, o.val))
                    elif meth == "try_fold":
                        r = o.val
                        if isinstance(r, Enum) and ((r.ty == "Result" and r.variant == 1) or (r.ty == "Option" and r.variant == 0) or (r.ty == "ControlFlow" and r.variant == 1)):
                            if itp is not None:
                                eng.store_ptr(o.st, itp, i2)
                            outs.append(Outcome(o.st, "ret", r))
                        else:
                            nxt.append((o.st, i2, r.fields[0]))
                    elif meth == "for_each":
                        nxt.append((o.st, i2, 0))
                    elif meth == "try_for_each":
                        r = o.val
                        if r.variant == 1:
                            outs.append(Outcome(o.st, "ret", r))
                        else:
                            nxt.append((o.st, i2, 0))
                    elif meth in ("all", "any", "position", "find"):
                        for (s3, tv) in _fork_bool(eng, o.st, o.val):
                            hit = tv if meth != "all" else (not tv)
                            if hit:
                                if itp is not None:
                                    eng.store_ptr(s3, itp, i2)
                                if meth == "all":
                                    outs.append(Outcome(s3, "ret", False))
                                elif meth == "any":
                                    outs.append(Outcome(s3, "ret", True))
                                elif meth == "position":
                                    outs.append(Outcome(s3, "ret", Enum("Option", 1, [acc])))
                                else:
                                    outs.append(Outcome(s3, "ret", Enum("Option", 1, [x])))
                            else:
                                nxt.append((s3, i2, acc + 1 if meth == "position" else acc))
                    elif meth == "find_map":
                        if o.val.variant == 1:
                            outs.append(Outcome(o.st, "ret", o.val))
                        else:
                            nxt.append((o.st, i2, acc))
                    else:
                        raise Unsupported(meth)
        cur = nxt
    return outs


def _try_wrap_ok(acc, args):
    init = args[1]
    return Enum("Result", 0, [acc])


def _fork_bool(eng, st, b):
    t = eng.truth(st, b)
    if t is not None:
        return [(st, t)]
    res = []
    if eng.feasible(st, b):
        s2 = st.fork()
        s2.assume(b)
        res.append((s2, True))
    if eng.feasible(st, z3.Not(b)):
        s3 = st.fork()
        s3.assume(z3.Not(b))
        res.append((s3, False))
    return res
