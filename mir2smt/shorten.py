import re, sys
def shorten(s):
    # replace Quantity<...balanced...> by Q
    out=[];i=0
    while True:
        j=s.find('Quantity<',i)
        if j<0: out.append(s[i:]);break
        out.append(s[i:j]); k=j+len('Quantity<'); d=1
        while d>0:
            c=s[k]
            if c=='<': d+=1
            elif c=='>' and s[k-1]!='-': d-=1
            k+=1
        out.append('Q'); i=k
    return ''.join(out)
if __name__=='__main__':
    pat=sys.argv[2]
    src=open(sys.argv[1]).read()
    src=shorten(src)
    for m in re.finditer(r'^(fn|const|static) [^\n]*'+pat+r'[^\n]*\{\n.*?^\}\n', src, re.S|re.M):
        print(m.group(0))
