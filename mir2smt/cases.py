"""Engine-M case runner: template -> symbolic run of the MIR -> obligations -> native replay of counterexamples."""
import json
import re
import os
import subprocess
import time
import traceback

import z3

from hlib import Harness, is_ok, is_err
from values import *  # noqa
from engine import Inconclusive, Outcome
from tmpl import Builder, Sym, VAcc, JAcc, Raw, Variant  # noqa
import tmpl

VERIF = os.environ.get("NREL_ALTRIOS_VERIF_DIR", "/verif")


class Claim:
    def __init__(self, name, fn, when="ok", role=None):
        self.name = name
        self.fn = fn
        self.when = when  # ok | err | ret | any (incl. panic) | nopanic (claim: this outcome kind must not exist)
        self.role = role


class Call:
    def __init__(self, fn, args, recv_path=None):
        self.fn = fn  # 'Type::method' (MIR pattern == native runner key)
        self.args = args  # list of (src type, template)
        self.recv_path = recv_path


class Ctx:
    """what a claim sees"""
    def __init__(self, pre, post, args, kind, ret, S, step=None):
        self.pre, self.post, self.args, self.kind, self.ret, self.S, self.step = pre, post, args, kind, ret, S, step

    h = None
    schema = None

    def ret_as(self, ty):
        """returned Ok(tuple) viewed as the harness-defined wrapper struct `ty` (engine: tuple fields; native: JSON object)"""
        r = self.retval()
        if isinstance(r, Struct):
            return VAcc(self.h, Struct(ty, r.fields))
        return JAcc(self.schema, ty, r)

    def retval(self):
        """payload of the returned Ok(..) (engine value or native JSON number)"""
        r = self.ret
        if isinstance(r, Enum) and r.ty == "Result":
            r = r.fields[0]
        if isinstance(r, Enum) and r.ty == "Option":
            r = r.fields[0] if r.variant == 1 else None
        return r


class Case:
    def __init__(self, name, prop, recv_ty, recv, calls, assume, claims, bounds=None, notes=None, functions=None,
                 expect_ok=True, max_paths=4000, loop_bound=40, timeout_ms=60000, free_fn=False, stubs=None, extra_syms=(), check_side=True, ret_ty=None):
        self.check_side = check_side
        self.ret_ty = ret_ty  # harness wrapper struct naming the fields of a returned tuple (translator validation compares it field by field)
        self.stubs = stubs or {}
        self.extra_syms = tuple(extra_syms)
        self.name, self.prop, self.recv_ty, self.recv, self.calls = name, prop, recv_ty, recv, calls
        self.assume, self.claims = assume, claims
        self.bounds = bounds or {}
        self.notes = notes or []
        self.expect_ok = expect_ok
        self.max_paths, self.loop_bound, self.timeout_ms = max_paths, loop_bound, timeout_ms
        self.free_fn = free_fn


def outcome_kind(o):
    if o.kind == "panic":
        return "panic"
    if is_err(o):
        return "err"
    return "ok"


def run_case(case, mir, schema, native=None, quick=True):
    """-> result dict (see keys below)"""
    t0 = time.time()
    res = {"harness": case.name, "property": case.prop, "engine": "M (mir2smt, z3 over exact reals)", "status": "pass", "violations": [], "inconclusive": [],
           "bounds": case.bounds, "notes": case.notes, "obligations": [], "functions": []}
    h = Harness(mir, case.name, case.prop, max_paths=case.max_paths, loop_bound=case.loop_bound, timeout_ms=case.timeout_ms)
    b = Builder(h, schema)
    b.fixed = dict(getattr(case, "fixed", {}) or {})
    for pat, fn in case.stubs.items():
        if pat.startswith("re:"):
            h.eng.ext_stubs.append((re.compile(pat[3:]), fn))  # environment stub matched on the call-site text (std / foreign functions)
        else:
            h.eng.stubs[mir.find_fn(pat)] = fn
    for wname, wfields in getattr(schema, "wrappers", {}).items():
        mir.struct_fields[wname] = wfields
        mir.struct_fields_all[wname] = [wfields]
    res["stubs"] = sorted(case.stubs)
    try:
        recv_val = b.value(case.recv_ty, case.recv) if case.recv is not None else None
        st = h.new_state()
        call_args = []
        for c in case.calls:
            row = []
            for (ty, t) in c.args:
                if ty.startswith("@"):
                    row.append(("@", ty[1:]))  # pointer into the receiver, resolved at call time
                elif ty.startswith("&"):
                    row.append(h.put(st, b.value(ty[1:].strip(), t)))
                else:
                    row.append(b.value(ty, t))
            call_args.append(row)
        for nme in case.extra_syms:
            if nme in getattr(case, "int_syms", ()):
                h.int(nme)
            else:
                h.real(nme)
        S = dict(h.syms)
        S.update(b.fixed)
        # the float model excludes non-finite inputs: every real input lies strictly between -INF and +INF
        if h.eng.mode == "real":
            for nme, v in h.syms.items():
                if v.sort().kind() == z3.Z3_REAL_SORT:
                    h.eng.solver.add(z3.And(v < h.eng.INF, v > -h.eng.INF))
                    h.assumptions.append((None, z3.And(v < h.eng.INF, v > -h.eng.INF)))
        assumptions = case.assume(S) if case.assume else []
        assumptions = [(t, c) for (t, c) in assumptions if not (isinstance(c, bool) and c)]
        if any(isinstance(c, bool) and not c for (_, c) in assumptions):
            res["status"] = "pass"
            res["notes"] = list(res.get("notes") or []) + ["this fixed-parameter combination is excluded by the assumptions (no admissible input)"]
            res["summary"] = h.summary()
            res["wall_s"] = 0.0
            res["skipped_inadmissible"] = True
            return res
        for (text, c) in assumptions:
            h.assume(c, text)
        res["assumptions"] = [t for (t, _) in assumptions] + ["every real-valued input is finite (strictly between -INF and +INF)"]
        p = h.put(st, recv_val) if recv_val is not None else None
        pre = VAcc(h, recv_val) if recv_val is not None else None
        # run the call sequence; an Err/panic ends that path
        live = [(st, None)]
        finals = []
        for ci, c in enumerate(case.calls):
            nxt = []
            for (s, _) in live:
                def _sub(pp0, path):
                    pp = pp0
                    for seg in path.split("."):
                        cur = h.eng.load_ptr(s, pp)
                        idx = 0 if isinstance(cur, Enum) else mir.field_index(cur.ty, seg, len(cur.fields))
                        pp = Ptr(pp.root, pp.path + (idx,))
                    return pp
                resolved = [(_sub(p, a[1]) if isinstance(a, tuple) and len(a) == 2 and a[0] == "@" else a) for a in call_args[ci]]
                args = ([p] if p is not None and not case.free_fn else []) + resolved
                if c.recv_path:
                    base = h.deref(s, p)
                    # pointer to a sub-object of the receiver
                    pp = p
                    for seg in c.recv_path.split("."):
                        cur = h.eng.load_ptr(s, pp)
                        if isinstance(cur, Enum):
                            idx = 0
                        else:
                            idx = mir.field_index(cur.ty, seg, len(cur.fields))
                        pp = Ptr(pp.root, pp.path + (idx,))
                    args = [pp] + resolved
                outs = h.run(c.fn, s, args)
                for o in outs:
                    k = outcome_kind(o)
                    if k == "ok" and ci + 1 < len(case.calls):
                        nxt.append((o.st, o))
                    else:
                        finals.append((o, ci))
            live = nxt
        kinds = {}
        for (o, ci) in finals:
            k = outcome_kind(o)
            kinds[k] = kinds.get(k, 0) + 1
            h._cur_st = o.st  # accessors follow Box pointers through this state's heap
            post = VAcc(h, h.deref(o.st, p)) if p is not None else None
            ret = None
            if o.kind == "ret":
                ret = o.val
            ctx = Ctx(pre, post, call_args, k, ret, S, ci)
            ctx.h, ctx.schema = h, schema
            if k == "panic":
                ok_reach, m = h.reachable(o)
                if ok_reach is None and any(cl.when == "nopanic" for cl in case.claims):
                    raise Inconclusive(f"solver could not decide whether the panic `{str(o.val)[:80]}` is reachable")
                if ok_reach:
                    # a reachable panic is reported through 'nopanic' claims
                    for cl in case.claims:
                        if cl.when == "nopanic":
                            rec = {"name": cl.name + ":" + str(o.val)[:60], "status": "violated", "model": h.model_values(m), "_model": m, "time_s": 0.0, "claim": cl}
                            h.obligations.append(rec)
                continue
            for cl in case.claims:
                if cl.when == "nopanic":
                    continue
                if cl.when in ("ok", "err") and cl.when != k:
                    continue
                try:
                    expr = cl.fn(ctx)
                except KeyError as e:
                    raise Inconclusive(f"claim {cl.name}: {e}")
                rec = h.prove(o, expr, cl.name)
                rec["claim"] = cl
                rec["kind"] = k
                wd = []
                if rec["status"] == "violated" and k == "ok" and getattr(case, "check_side", True) and o.st.events and not isinstance(expr, bool):
                    # the path's side conditions are obligations of their own (below): look for a violation of this claim
                    # inside the region where they hold, so that one undefined operation is reported once, where it happens
                    wd = [to_z3(cond) for (_, cond, _) in o.st.events]
                    verdict, mwd = h.within_side_conditions(o, to_z3(expr), wd)
                    if verdict == "sat":
                        rec["model"] = h.model_values(mwd)
                        rec["_model"] = mwd
                    elif verdict == "unsat":
                        rec["status"] = "holds"
                        rec["only_where_a_side_condition_fails"] = True
                        rec.pop("model", None)
                        rec.pop("_model", None)
                        wd = []
                    else:
                        wd = []
                if rec["status"] == "violated":
                    # look for a witness that violates the claim by a clear margin (survives f64 rounding on replay)
                    try:
                        tmpl.MARGIN = 1e-3
                        tol = cl.fn(ctx)
                    finally:
                        tmpl.MARGIN = None
                    m2 = h.robust_model(o, to_z3(tol), extra=wd) if not isinstance(tol, bool) else None
                    if m2 is not None:
                        rec["model"] = h.model_values(m2)
                        rec["_model"] = m2
                        rec["robust_witness"] = True
                    if not isinstance(expr, bool):
                        rec["_retry"] = (o, z3.Not(to_z3(tol)) if m2 is not None else z3.Not(to_z3(expr)), wd)
            # side conditions recorded by the engine on Ok paths (NaN/inf production, overflow)
            if k == "ok" and getattr(case, "check_side", True):
                for r in h.check_events(o, prefix="side:"):
                    r["claim"] = None
                    r["kind"] = k
        res["outcome_kinds"] = kinds
        if case.expect_ok and kinds.get("ok", 0) == 0:
            res["status"] = "inconclusive"
            res["inconclusive"].append("vacuous: no accepted (Ok) outcome is reachable under the assumptions")
        # vacuity: every Ok outcome must be satisfiable
        nreach = 0
        nunknown = 0
        for (o, ci) in finals:
            if outcome_kind(o) == "ok":
                if nunknown >= 2 and nreach == 0:
                    nunknown += 1
                    continue  # hard nonlinear path conditions: leave the witness to the concrete runs (below)
                okr, _ = h.reachable(o, tmo_ms=15000)
                nreach += 1 if okr else 0
                if okr is None:
                    nunknown += 1
                    res.setdefault("notes", []).append("reachability of an Ok outcome: solver unknown")
        if getattr(case, "expect_err", False):
            # harnesses whose point is a rejection: at least one Err outcome has to be reachable
            nerr = 0
            for (o, ci) in finals:
                if outcome_kind(o) == "err" and nerr == 0:
                    okr, _ = h.reachable(o, tmo_ms=15000)
                    nerr += 1 if okr else 0
            res["reachable_err_outcomes"] = nerr
            if nerr == 0 and res["status"] == "pass" and not any(r_.get("status") == "violated" for r_ in h.obligations):
                res["status"] = "inconclusive"
                res["inconclusive"].append("vacuous: no rejecting (Err) outcome is reachable under the assumptions")
        res["reachable_ok_outcomes"] = nreach
        if case.expect_ok and nreach == 0 and res["status"] == "pass":
            if nunknown:
                # decided after translator validation: a sampled input on which the interpreter and the real build both accept is the witness
                res["vacuity_pending"] = True
            else:
                res["status"] = "inconclusive"
                res["inconclusive"].append("vacuous: Ok outcomes exist but none is satisfiable")
    except (Unsupported, Inconclusive) as e:
        res["status"] = "inconclusive"
        res["inconclusive"].append(f"{type(e).__name__}: {e}")
    except Exception as e:  # engine bug: never a pass
        res["status"] = "inconclusive"
        res["inconclusive"].append("engine error: " + "".join(traceback.format_exception_only(type(e), e)).strip())
        res["traceback"] = traceback.format_exc()
    # collect obligations
    for rec in h.obligations:
        cl = rec.get("claim")
        entry = {"name": rec["name"], "status": rec["status"], "time_s": rec["time_s"]}
        if rec["status"] == "unknown":
            res["status"] = "inconclusive" if res["status"] == "pass" else res["status"]
            res["inconclusive"].append(f"solver unknown on {rec['name']}: {rec.get('reason')}")
        if rec["status"] == "violated":
            v = {"claim": rec["name"], "model": rec["model"], "role": (cl.role if cl is not None and cl.role else rec["name"].split(":")[0]),
                 "side_condition": cl is None}
            # native replay
            if native is not None and case.recv is not None or native is not None and case.free_fn:
                try:
                    v["replay"] = replay(case, b, schema, rec["model"], cl, native, rec["name"])
                    if v["replay"].get("reproduced") is not True and rec.get("_retry") is not None:
                        # the witness may sit on a rounding-sensitive boundary of the path: try other models of the same violation
                        import random as _random
                        import zlib as _zlib
                        o_, neg_, wd_ = rec["_retry"]
                        rnd = _random.Random(_zlib.crc32((case.name + rec["name"]).encode()))
                        for k_, m_ in enumerate(h.alt_models(o_, neg_, wd_, rec["model"], rnd)):
                            mv_ = h.model_values(m_)
                            rp_ = replay(case, b, schema, mv_, cl, native, rec["name"])
                            if rp_.get("reproduced") is True:
                                rp_["alternative_witness_no"] = k_ + 1
                                v["replay"], v["model"], rec["model"] = rp_, mv_, mv_
                                break
                except Exception as e:
                    v["replay"] = {"reproduced": None, "error": repr(e)}
            res["violations"].append(v)
            entry["model"] = rec["model"]
        res["obligations"].append(entry)
    res["summary"] = h.summary()
    res["functions"] = sorted(x for x in h.eng.stats["bodies"] if "promoted" not in x)
    res["wall_s"] = round(time.time() - t0, 3)
    if res["violations"] and res["status"] == "pass":
        res["status"] = "violated"
    return res


def replay(case, b, schema, model, claim, native, claim_name):
    """run the same call sequence on the real build with the solver's values; evaluate the same claim in f64"""
    recv_json = b.json(case.recv_ty, case.recv, model) if case.recv is not None else None
    calls = []
    # native-only prelude: puts the real object into a state that cannot be expressed through its serialized form (serde-skipped fields)
    for c in getattr(case, "native_pre", ()):
        calls.append({"fn": c.fn, "recv_path": c.recv_path, "args": [b.json(ty.lstrip("&").strip(), t, model) for (ty, t) in c.args if not ty.startswith("@")]})
    for c in case.calls:
        calls.append({"fn": c.fn, "recv_path": c.recv_path, "args": [b.json(ty.lstrip("&").strip(), t, model) for (ty, t) in c.args if not ty.startswith("@")]})
    req = {"recv_ty": case.recv_ty if case.recv is not None else "<free>", "recv": recv_json, "calls": calls}
    resp = native.call(req)
    out = {"request": req, "response_kind": resp.get("kind"), "step": resp.get("step")}
    if resp.get("kind") == "unsupported":
        out["reproduced"] = None
        out["error"] = resp.get("msg")
        return out
    kind = resp["kind"]
    if claim is None:
        # engine side condition (division by zero / NaN etc.): reproduced if any number in the post state is non-finite
        txt = json.dumps(resp.get("recv"))
        import re as _re
        nan_err = kind == "err" and _re.search(r"NaN|\binf\b", str(resp.get("msg")))
        out["reproduced"] = bool(("null" in txt and kind == "ok") or kind == "panic" or nan_err)
        if kind == "err" and not nan_err:
            out["reproduced"] = None
            out["error"] = "the real build rejects this input (Err) before the undefined value can be observed: " + str(resp.get("msg"))[:200]
        out["note"] = "side condition: non-finite value shows as null in the serialized state, or is named by the returned error"
        return out
    if claim.when == "nopanic":
        out["reproduced"] = kind == "panic"
        out["native_panic"] = resp.get("msg")
        return out
    pre = JAcc(schema, case.recv_ty, recv_json) if recv_json is not None else None
    post = JAcc(schema, case.recv_ty, resp.get("recv")) if resp.get("recv") is not None else None
    argv = [[_jnum(a) for a in c["args"]] for c in calls]
    S = {k: v for k, v in model.items()}
    S.update(getattr(case, "fixed", {}) or {})
    if claim.when in ("ok", "err") and claim.when != kind:
        out["reproduced"] = False
        out["note"] = f"native outcome kind {kind} differs from the symbolic path kind {claim.when}"
        return out
    ctx = Ctx(pre, post, argv, kind, resp.get("ret"), S, resp.get("step"))
    ctx.schema = schema
    try:
        val = claim.fn(ctx)
    except KeyError as e:
        out["reproduced"] = None
        out["error"] = "claim evaluation: " + repr(e)
        return out
    out["native_claim_value"] = bool(val)
    out["reproduced"] = not bool(val)
    out["native_post"] = resp.get("recv")
    return out


def _jnum(a):
    return a


class Native:
    """the native runner process (real build of /repo with cfg nrel_altrios_verif)"""

    def __init__(self, binpath):
        self.bin = binpath
        self.p = subprocess.Popen([binpath], stdin=subprocess.PIPE, stdout=subprocess.PIPE, stderr=subprocess.DEVNULL, text=True, bufsize=1)

    def call(self, req):
        try:
            self.p.stdin.write(json.dumps(req) + "\n")
            self.p.stdin.flush()
            line = self.p.stdout.readline()
            if not line:
                raise RuntimeError("runner died")
            return json.loads(line)
        except Exception as e:
            # restart for the next request
            try:
                self.p.kill()
            except Exception:
                pass
            self.p = subprocess.Popen([self.bin], stdin=subprocess.PIPE, stdout=subprocess.PIPE, stderr=subprocess.DEVNULL, text=True, bufsize=1)
            return {"kind": "unsupported", "msg": "runner failure: " + repr(e)}

    def close(self):
        try:
            self.p.stdin.close()
            self.p.wait(timeout=5)
        except Exception:
            self.p.kill()
