"""Engine M: path-wise symbolic execution of rustc MIR bodies with z3.

exec is recursive per call (call depth is small); inside one body a worklist
explores the paths; at every function return the outcomes are merged by shape
(values that differ become ite-terms over the path conditions), which keeps the
number of paths from multiplying across calls.
"""
import re
import time
from fractions import Fraction

import z3

from values import *  # noqa
import mir as mirmod


import os
DEBUG = bool(os.environ.get("M2S_DEBUG"))


class Inconclusive(Exception):
    pass


class PanicExc(Exception):
    def __init__(self, msg):
        self.msg = msg


def _nonlinear(e, _memo=None):
    """does the term multiply / divide two non-constant sub-terms?"""
    if _memo is None:
        _memo = {}
    k = e.get_id()
    if k in _memo:
        return _memo[k]
    r = False
    if z3.is_app(e):
        kind = e.decl().kind()
        ch = e.children()
        if kind in (z3.Z3_OP_MUL,):
            r = sum(1 for c in ch if not z3.is_rational_value(c) and not z3.is_int_value(c)) > 1
        elif kind in (z3.Z3_OP_DIV, z3.Z3_OP_IDIV, z3.Z3_OP_MOD, z3.Z3_OP_REM, z3.Z3_OP_POWER):
            r = not (z3.is_rational_value(ch[1]) or z3.is_int_value(ch[1]))
        if not r:
            r = any(_nonlinear(c, _memo) for c in ch)
    _memo[k] = r
    return r


DEBUG_FORKS = {} if os.environ.get("M2S_DEBUG_FORKS") else None


class Outcome:
    __slots__ = ("st", "kind", "val")

    def __init__(self, st, kind, val):
        self.st = st
        self.kind = kind  # 'ret' | 'panic'
        self.val = val

    def __repr__(self):
        return f"Outcome({self.kind},{self.val!r},pc={len(self.st.pc)})"


class State:
    __slots__ = ("frames", "heap", "pc", "events", "defs")

    def __init__(self, frames=None, heap=None, pc=(), events=(), defs=()):
        self.frames = frames if frames is not None else {}
        self.heap = heap if heap is not None else {}
        self.pc = pc
        self.events = events  # tuple of (kind, cond, where)
        self.defs = defs  # definitional constraints of fresh variables (sqrt, fmod, contracts): also part of pc

    def fork(self):
        return State({k: dict(v) for k, v in self.frames.items()}, dict(self.heap), self.pc, self.events, self.defs)

    def assume(self, c):
        self.pc = self.pc + (c,)

    def define(self, c):
        """constraint that defines a fresh variable: holds on every path that mentions it"""
        self.pc = self.pc + (c,)
        self.defs = self.defs + (c,)


INT_RANGES = {
    "u8": (0, 2**8 - 1), "u16": (0, 2**16 - 1), "u32": (0, 2**32 - 1), "u64": (0, 2**64 - 1), "usize": (0, 2**64 - 1),
    "u128": (0, 2**128 - 1), "i8": (-2**7, 2**7 - 1), "i16": (-2**15, 2**15 - 1), "i32": (-2**31, 2**31 - 1),
    "i64": (-2**63, 2**63 - 1), "isize": (-2**63, 2**63 - 1), "i128": (-2**127, 2**127 - 1),
}


class Engine:
    def __init__(self, mir, mode="real", timeout_ms=20000, max_paths=4000, loop_bound=40, merge=True):
        self.mir = mir
        self.mode = mode  # 'real' (symbolic, exact reals) | 'float' (concrete python floats)
        self.global_assumptions = []  # the harness's domain assumptions (also asserted in self.solver)
        self.lin_solver = None
        self.solver = z3.Solver()
        self.solver.set("timeout", int(os.environ.get("M2S_FEAS_TIMEOUT_MS", "400")))
        self.solver.set("rlimit", int(os.environ.get("M2S_FEAS_RLIMIT", "300000")))
        self.max_paths = max_paths
        self.loop_bound = loop_bound
        self.merge = merge
        self.feas_unknown_budget = int(os.environ.get("M2S_FEAS_UNKNOWN_BUDGET", "3"))
        self.nfid = 0
        self.nheap = 0
        self.nfresh = 0
        self.const_frames = {}
        self.const_cache = {}
        self.stubs = {}  # body name -> python fn(engine, st, args) -> [(st, val)]
        self.ext_stubs = []  # (compiled regex over the call-site callee text, fn): environment stubs for std / foreign functions
        self.stats = {"paths": 0, "feas_queries": 0, "feas_time": 0.0, "calls": 0, "stmts": 0, "merges": 0, "bodies": set(), "intrinsics": set()}
        self.INF = z3.Real("INF") if mode == "real" else float("inf")
        self.closure_index = None
        self.trace = False
        import intrinsics
        self.intr = intrinsics

    # ------------------------------------------------------------ misc
    def fresh(self, name, sort="real"):
        self.nfresh += 1
        n = f"{name}!{self.nfresh}"
        if sort == "real":
            return z3.Real(n)
        if sort == "int":
            return z3.Int(n)
        return z3.Bool(n)

    def flt(self, x):
        """a float constant in the current float model"""
        if self.mode == "float":
            return float(x)
        if isinstance(x, float):
            return Fraction(x)
        return Fraction(x)

    def heap_alloc(self, st, val):
        self.nheap += 1
        st.heap[self.nheap] = val
        return Ptr(("H", self.nheap))

    # ------------------------------------------------------------ solver
    def feasible(self, st, cond=None):
        # once the solver has answered `unknown` a few times on this harness (hard nonlinear path conditions),
        # stop asking: exploring a possibly infeasible path is sound (its obligations carry the path condition)
        if self.stats.get("feas_unknown", 0) >= self.feas_unknown_budget:
            # the nonlinear solver keeps answering `unknown` on this harness: fall back to the solver with nonlinear reasoning
            # switched off (products of symbolic terms are opaque monomials). Its `unsat` is a proof, so pruning on it is sound;
            # anything else is treated as feasible.
            if not os.environ.get("M2S_LIN_FEAS"):
                # (off by default: on the harnesses tried so far the extra queries cost more than the paths they prune)
                self.stats["feas_assumed"] = self.stats.get("feas_assumed", 0) + 1
                return True
            if self.lin_solver is None:
                self.lin_solver = z3.SimpleSolver()
                self.lin_solver.set("arith.nl", False)
                self.lin_solver.set("timeout", 1000)
                for c in self.global_assumptions:
                    self.lin_solver.add(c)
            t = time.time()
            self.lin_solver.push()
            for c in st.pc:
                self.lin_solver.add(c)
            if cond is not None:
                self.lin_solver.add(cond)
            r = self.lin_solver.check()
            self.lin_solver.pop()
            self.stats["feas_time"] += time.time() - t
            self.stats["feas_lin_queries"] = self.stats.get("feas_lin_queries", 0) + 1
            if r == z3.unsat:
                return False
            self.stats["feas_assumed"] = self.stats.get("feas_assumed", 0) + 1
            return True
        cs = list(st.pc)
        if cond is not None:
            cs.append(cond)
        t = time.time()
        self.solver.push()
        for c in cs:
            self.solver.add(c)
        r = self.solver.check()
        self.solver.pop()
        self.stats["feas_queries"] += 1
        dt = time.time() - t
        self.stats["feas_time"] += dt
        if r == z3.unknown:
            self.stats["feas_unknown"] = self.stats.get("feas_unknown", 0) + 1
        if DEBUG and dt > 0.5:
            print(f"[feas {dt:.1f}s -> {r}] pc={len(cs)}", flush=True)
        return r != z3.unsat

    def truth(self, st, c):
        """c: python bool or z3 Bool -> True / False / None (both possible as far as cheap checks can tell)"""
        if isinstance(c, bool):
            return c
        c = z3.simplify(c)
        if z3.is_true(c):
            return True
        if z3.is_false(c):
            return False
        # structural: the same term (hash-consed) was already decided on this path
        ids = set()
        keep = []  # AST ids are recycled once a term is freed: keep every term alive while ids are compared
        for x in st.pc:
            if is_z3(x):
                ids.add(x.get_id())
                sx = z3.simplify(x)
                keep.append(sx)
                ids.add(sx.get_id())
        if c.get_id() in ids:
            return True
        n = z3.simplify(z3.Not(c))
        keep.append(n)
        if n.get_id() in ids:
            return False
        return None

    # ------------------------------------------------------------ memory
    def _root_get(self, st, root):
        k = root[0]
        if k == "L":
            fr = st.frames.get(root[1])
            if fr is None:
                fr = self.const_frames.get(root[1])
                if fr is None:
                    raise Unsupported(f"dangling pointer into frame {root}")
            v = fr.get(root[2], UNINIT)
            return v
        if k == "H":
            return st.heap[root[1]]
        raise Unsupported("root " + repr(root))

    def _root_set(self, st, root, v):
        k = root[0]
        if k == "L":
            fr = st.frames.get(root[1])
            if fr is None:
                raise Unsupported(f"write through dangling/const pointer {root}")
            fr[root[2]] = v
        elif k == "H":
            st.heap[root[1]] = v
        else:
            raise Unsupported("root " + repr(root))

    def load(self, st, root, path):
        v = self._root_get(st, root)
        for step in path:
            v = self._step(v, step)
        return v

    def _step(self, v, step):
        if isinstance(v, (Struct, Enum, Closure)):
            try:
                return v.fields[step]
            except IndexError:
                raise Unsupported(f"field {step} of {v!r}")
        if isinstance(v, Seq):
            if not isinstance(step, int):
                raise Unsupported("symbolic index step")
            if step < 0 or step >= len(v.elems):
                raise PanicExc(f"index out of bounds: len {len(v.elems)} idx {step}")
            return v.elems[step]
        if is_scalar(v):
            # Quantity is represented by its value: field 2 (value) is the scalar itself
            if step == 2:
                return v
            if step in (0, 1):
                return UNIT
        if isinstance(v, IterV):
            return v.d[step]
        if v is UNINIT:
            raise Unsupported("read of uninitialised memory (harness did not provide this field)")
        raise Unsupported(f"projection {step} on {type(v).__name__} {v!r}")

    def _set(self, v, path, new):
        if not path:
            return new
        step = path[0]
        if isinstance(v, Struct):
            f = list(v.fields)
            f[step] = self._set(f[step], path[1:], new)
            return Struct(v.ty, f)
        if isinstance(v, Enum):
            f = list(v.fields)
            f[step] = self._set(f[step], path[1:], new)
            return Enum(v.ty, v.variant, f)
        if isinstance(v, Closure):
            f = list(v.fields)
            f[step] = self._set(f[step], path[1:], new)
            return Closure(v.span, f)
        if isinstance(v, Seq):
            if step < 0 or step >= len(v.elems):
                raise PanicExc(f"index out of bounds (write): len {len(v.elems)} idx {step}")
            e = list(v.elems)
            e[step] = self._set(e[step], path[1:], new)
            return Seq(e, v.ety)
        if isinstance(v, IterV):
            d = list(v.d)
            d[step] = self._set(d[step], path[1:], new)
            return IterV(v.kind, *d)
        if is_scalar(v) and step == 2 and len(path) == 1:
            return new
        if v is UNINIT:
            # writing a field of an uninitialised aggregate: materialise a sparse struct
            f = [UNINIT] * (step + 1)
            f[step] = self._set(UNINIT, path[1:], new)
            return Struct("?", f)
        raise Unsupported(f"store step {step} into {type(v).__name__}")

    def store(self, st, root, path, val):
        if not path:
            self._root_set(st, root, val)
            return
        v = self._root_get(st, root)
        if isinstance(v, Struct) and v.ty == "?" and path[0] >= len(v.fields):
            v = Struct("?", list(v.fields) + [UNINIT] * (path[0] + 1 - len(v.fields)))
        self._root_set(st, root, self._set(v, path, val))

    def load_ptr(self, st, p):
        v = self.load(st, p.root, p.path)
        if p.win is not None:
            if not isinstance(v, Seq):
                raise Unsupported("window on non-seq")
            return Seq(v.elems[p.win[0] : p.win[0] + p.win[1]], v.ety)
        return v

    def store_ptr(self, st, p, val):
        if p.win is not None:
            raise Unsupported("store through slice window")
        self.store(st, p.root, p.path, val)

    def deref_all(self, st, v):
        while isinstance(v, Ptr):
            v = self.load_ptr(st, v)
        return v

    # ------------------------------------------------------------ places
    def place_addr(self, st, fid, place):
        root = ("L", fid, place.local)
        path = ()
        win = None
        for pr in place.proj:
            k = pr[0]
            if k == "deref":
                v = self.load(st, root, path)
                if win is not None:
                    raise Unsupported("deref after window")
                if not isinstance(v, Ptr):
                    if v is UNINIT:
                        raise Unsupported(f"deref of uninitialised {place}")
                    raise Unsupported(f"deref of non-pointer {v!r} at {place}")
                root, path, win = v.root, v.path, v.win
            elif k == "field":
                if win is not None:
                    raise Unsupported("field after window")
                path = path + (pr[1],)
            elif k == "downcast":
                pass
            elif k == "index":
                idx = st.frames[fid][pr[1]]
                if not isinstance(idx, int):
                    raise SymbolicIndex(root, path, win, idx, pr[1])
                if win is not None:
                    if idx < 0 or idx >= win[1]:
                        raise PanicExc(f"index out of bounds: len {win[1]} idx {idx}")
                    path = path + (win[0] + idx,)
                    win = None
                else:
                    path = path + (idx,)
            elif k == "cindex":
                n = pr[1]
                if pr[2]:
                    seq = self.load(st, root, path)
                    ln = win[1] if win else len(seq.elems)
                    n = ln - n
                if win is not None:
                    path = path + (win[0] + n,)
                    win = None
                else:
                    path = path + (n,)
            elif k == "subslice":
                seq = self.load(st, root, path)
                base, ln = (win if win else (0, len(seq.elems)))
                a, b = pr[1], pr[2]
                end = ln - b if pr[3] else b
                win = (base + a, end - a)
            else:
                raise Unsupported("proj " + k)
        return root, path, win

    def read_place(self, st, fid, place):
        if not place.proj:
            v = st.frames[fid].get(place.local, UNINIT)
            return v
        try:
            root, path, win = self.place_addr(st, fid, place)
        except SymbolicIndex as si:
            return self._read_symbolic_index(st, si)
        v = self.load(st, root, path)
        if win is not None:
            return Seq(v.elems[win[0] : win[0] + win[1]])
        return v

    def _read_symbolic_index(self, st, si):
        seq = self.load(st, si.root, si.path)
        if not isinstance(seq, Seq):
            raise Unsupported("symbolic index into non-seq")
        elems = seq.elems
        if si.win:
            elems = elems[si.win[0] : si.win[0] + si.win[1]]
        n = len(elems)
        if n == 0:
            raise PanicExc("index out of bounds (empty, symbolic)")
        st.events = st.events + (("index_in_bounds", z3.And(si.idx >= 0, si.idx < n), "symbolic index"),)
        res = elems[n - 1]
        for k in range(n - 2, -1, -1):
            res = self.merge_val(si.idx == k, elems[k], res)
        return res

    def write_place(self, st, fid, place, val):
        if not place.proj:
            st.frames[fid][place.local] = val
            return
        root, path, win = self.place_addr(st, fid, place)
        if win is not None:
            raise Unsupported("write to window")
        self.store(st, root, path, val)

    # ------------------------------------------------------------ constants
    def eval_const(self, st, body, text):
        t = text.strip()
        if t == "true":
            return True
        if t == "false":
            return False
        if t == "()":
            return UNIT
        m = re.match(r"^(-?\d+)_([ui](?:8|16|32|64|128|size))$", t)
        if m:
            return int(m.group(1))
        m = re.match(r"^(-?(?:\d+\.?\d*|\.\d+)(?:[eE][+-]?\d+)?)f(64|32)$", t)
        if m:
            return self.flt(float(m.group(1)))
        if t.startswith('"') or t.startswith('b"'):
            return Opaque("str:" + t[:60])
        if t.startswith("'"):
            return Opaque("char:" + t)
        if t.startswith("ZeroSized: "):
            ty = t[len("ZeroSized: "):]
            if ty.startswith("{closure@"):
                return Closure(ty, ())
            m = re.search(r"\{([^{}]*(?:\{[^{}]*\}[^{}]*)*)\}$", ty)
            if ty.startswith("fn") and m:
                return FnItem(m.group(1))
            return Struct(mirmod.strip_generics(ty).split("::")[-1], ())
        if t.startswith("{alloc") or t.startswith("alloc"):
            return Opaque("alloc")
        mt = re.match(r"^(PInt|NInt)::<(.*?)> \{\{", t)
        if mt:
            n = 0
            for b_ in re.findall(r"B([01])", mt.group(2)):
                n = n * 2 + int(b_)
            return Struct("typenum", [n if mt.group(1) == "PInt" else -n])
        # float specials
        ng = t
        if re.search(r"(^|::)(f64|<impl f64>)::INFINITY$", ng) or ng.endswith("f64::INFINITY"):
            return self.INF
        if ng.endswith("::NEG_INFINITY"):
            return -self.INF
        if ng.endswith("f64>::NAN") or ng.endswith("f64::NAN") or ng.endswith("::NAN"):
            return float("nan") if self.mode == "float" else Opaque("NaN")
        if ng.endswith("f64>::EPSILON") or ng.endswith("f64::EPSILON"):
            return self.flt(2.220446049250313e-16)
        if ng.endswith("f64>::MAX") or ng.endswith("f64::MAX"):
            return self.flt(1.7976931348623157e308)
        if ng.endswith("usize>::MAX") or ng.endswith("usize::MAX"):
            return 2**64 - 1
        if ng.endswith("u32>::MAX") or ng.endswith("u32::MAX"):
            return 2**32 - 1
        if ng.endswith("consts::PI"):
            return self.flt(3.141592653589793)
        if "ConstZero>::ZERO" in ng or ng.endswith("::ZERO") and "Quantity" in ng:
            return self.flt(0.0)
        if ng.endswith("PhantomData") or "PhantomData::<" in ng:
            return UNIT
        return self.named_const(st, body, t)

    def named_const(self, st, body, t):
        key = t
        m = re.search(r"::promoted\[(\d+)\]$", t)
        if m:
            # promoteds belong to the body that references them (closures reference their own)
            name = body.name + f"::promoted[{m.group(1)}]"
            if name not in self.mir.bodies:
                # closures: promoted may hang off the parent
                base = re.sub(r"::\{closure#\d+\}$", "", body.name)
                name = base + f"::promoted[{m.group(1)}]"
            key = name
        if key in self.const_cache:
            return self.const_cache[key]
        name = None
        if key in self.mir.bodies:
            name = key
        else:
            ng = mirmod.strip_generics(t)
            segs = ng.split("::")
            best = None
            for cand in list(self.mir.bodies.keys()) + list(self.mir.simple_consts.keys()):
                cb = self.mir.bodies.get(cand)
                if cb is not None and cb.kind == "fn":
                    continue
                cs = mirmod.strip_generics(cand).split("::")
                # longest common suffix
                k = 0
                while k < len(cs) and k < len(segs) and cs[-1 - k] == segs[-1 - k]:
                    k += 1
                if k >= 1 and k == len(cs) or (k >= 1 and k == len(segs)):
                    if best is None or k > best[0]:
                        best = (k, cand)
            if best:
                name = best[1]
        if name is None:
            # unit enum variant / unit struct used as const
            ng = mirmod.strip_generics(t)
            segs = ng.split("::")
            if len(segs) >= 2 and segs[-2] in self.mir.enums and segs[-1] in self.mir.enums[segs[-2]]:
                return Enum(segs[-2], self.mir.enums[segs[-2]].index(segs[-1]), ())
            m2 = re.match(r"^([\w:]+) \{\{\s*\}\}$", t)
            if m2:
                return Struct(m2.group(1).split("::")[-1], ())
            if re.match(r"^[A-Za-z_][\w:]*$", t) and t.split("::")[-1][:1].isupper():
                # unit struct of another crate used as a value (e.g. anyhow::kind::Adhoc)
                return Struct(t.split("::")[-1], ())
            raise Unsupported("const " + t[:120])
        if name in self.mir.simple_consts:
            v = self.eval_const(st, body, self.mir.simple_consts[name])
        else:
            cb = self.mir.bodies[name]
            # evaluate in a persistent (negative id) frame
            tmp = State()
            self.nfid += 1
            fid = -self.nfid
            outs = self.exec_body(tmp, cb, [], fid=fid, keep_frame=True)
            if len(outs) != 1 or outs[0].kind != "ret":
                raise Unsupported("const body with several outcomes: " + name)
            self.const_frames[fid] = outs[0].st.frames[fid]
            v = outs[0].val
        self.const_cache[key] = v
        return v

    # ------------------------------------------------------------ operands / rvalues
    def eval_operand(self, st, fid, body, op):
        k = op[0]
        if k in ("copy", "move"):
            return self.read_place(st, fid, op[1])
        return self.eval_const(st, body, op[1])

    def eval_rvalue(self, st, fid, body, rv, dest_ty=None):
        k = rv[0]
        if k == "use":
            return self.eval_operand(st, fid, body, rv[1])
        if k == "ref":
            pl = rv[1]
            root, path, win = self.place_addr(st, fid, pl)  # SymbolicIndex is handled by exec_body (case split on the index)
            return Ptr(root, path, win)
        if k == "binop":
            a = self.eval_operand(st, fid, body, rv[2])
            b = self.eval_operand(st, fid, body, rv[3])
            return self.binop(st, rv[1], a, b, dest_ty)
        if k == "unop":
            a = self.eval_operand(st, fid, body, rv[2])
            return self.unop(st, rv[1], a)
        if k == "cast":
            a = self.eval_operand(st, fid, body, rv[1])
            return self.cast(st, a, rv[2], rv[3])
        if k == "discriminant":
            v = self.read_place(st, fid, rv[1])
            if isinstance(v, Enum):
                return self.intr.enum_discr_value(self, v)
            if isinstance(v, bool):
                return int(v)
            raise Unsupported(f"discriminant of {v!r}")
        if k == "len":
            v = self.read_place(st, fid, rv[1])
            if isinstance(v, Seq):
                return len(v.elems)
            raise Unsupported("Len of non-seq")
        if k == "tuple":
            return Struct("()", [self.eval_operand(st, fid, body, o) for o in rv[1]])
        if k == "array":
            return Seq([self.eval_operand(st, fid, body, o) for o in rv[1]])
        if k == "repeat":
            v = self.eval_operand(st, fid, body, rv[1])
            n = rv[2].strip()
            m = re.match(r"^(?:const )?(\d+)(?:_usize)?$", n)
            if not m:
                n = self.eval_const(st, body, n.replace("const ", ""))
            else:
                n = int(m.group(1))
            return Seq([v] * n)
        if k == "closure":
            caps = [o for (_, o) in rv[2]]
            caps = self._complete_closure_captures(body, rv[1], caps)
            return Closure(rv[1], [self.eval_operand(st, fid, body, o) for o in caps])
        if k == "adt":
            path = mirmod.strip_generics(rv[1])
            segs = path.split("::")
            vals = [self.eval_operand(st, fid, body, o) for (_, o) in rv[3]]
            if len(segs) >= 2 and segs[-2] in self.mir.enums and segs[-1] in self.mir.enums[segs[-2]]:
                return Enum(segs[-2], self.mir.enums[segs[-2]].index(segs[-1]), vals)
            ty = segs[-1]
            if ty == "Quantity":
                names = [n for (n, _) in rv[3]]
                return vals[names.index("value")]
            if ty == "PhantomData":
                return UNIT
            return Struct(ty, vals)
        raise Unsupported("rvalue " + k)

    # ------------------------------------------------------------ arithmetic
    # ---- infinities produced by a division by a concrete zero (IEEE semantics, as markers; every symbolic input is finite)
    @staticmethod
    def _is_inf(v):
        return (isinstance(v, Opaque) and v.tag in ("+inf", "-inf")) or (isinstance(v, float) and v in (float("inf"), float("-inf")))

    def _inf_sign(self, v):
        if isinstance(v, Opaque):
            return 1 if v.tag == "+inf" else -1
        return 1 if v > 0 else -1

    def _mk_inf(self, sign):
        if self.mode == "float":
            return float("inf") if sign > 0 else float("-inf")
        return Opaque("+inf" if sign > 0 else "-inf")

    def sign_of(self, st, x):
        """+1 / -1 / 0 when the path condition decides the sign of the finite scalar x, else Unsupported"""
        if is_conc(x):
            return (x > 0) - (x < 0)
        x = to_z3(x)
        # cheap and robust first: decide from the linear part of the path condition alone (fewer hypotheses: still sound)
        lin = [c for c in list(self.global_assumptions) + list(st.pc) if is_z3(c) and not _nonlinear(c)]
        s0 = z3.Solver()
        s0.set("timeout", 2000)
        for c in lin:
            s0.add(c)
        for (cond, sg) in ((x <= 0, 1), (x >= 0, -1), (x != 0, 0)):
            s0.push()
            s0.add(cond)
            r = s0.check()
            s0.pop()
            if r == z3.unsat:
                return sg
        pos, neg, zero = self.feasible(st, x > 0), self.feasible(st, x < 0), self.feasible(st, x == 0)
        if pos and not neg and not zero:
            return 1
        if neg and not pos and not zero:
            return -1
        if zero and not pos and not neg:
            return 0
        raise Unsupported("sign of an operand combined with an infinity (x / 0) is not decided by the path condition")

    def _inf_binop(self, st, op, a, b):
        ia, ib = self._is_inf(a), self._is_inf(b)
        nan = float("nan") if self.mode == "float" else Opaque("NaN")
        if (not ia and not is_scalar(a)) or (not ib and not is_scalar(b)):
            return NotImplemented
        if op in ("Add", "Sub"):
            sb = (self._inf_sign(b) if ib else 0) * (1 if op == "Add" else -1)
            sa = self._inf_sign(a) if ia else 0
            if sa and sb and sa != sb:
                return nan
            return self._mk_inf(sa or sb)
        if op == "Mul":
            s1 = self._inf_sign(a) if ia else self.sign_of(st, a)
            s2 = self._inf_sign(b) if ib else self.sign_of(st, b)
            return nan if s1 * s2 == 0 else self._mk_inf(s1 * s2)
        if op == "Div":
            if ia and ib:
                return nan
            if ib:
                return self.flt(0.0)
            s2 = self.sign_of(st, b)
            return self._mk_inf(self._inf_sign(a) * (s2 if s2 != 0 else 1))
        if op in ("Eq", "Ne", "Lt", "Le", "Gt", "Ge"):
            va = self._inf_sign(a) * 2 if ia else 0
            vb = self._inf_sign(b) * 2 if ib else 0
            return {"Eq": va == vb and ia and ib, "Ne": not (va == vb and ia and ib), "Lt": va < vb, "Le": va < vb or (ia and ib and va == vb), "Gt": va > vb, "Ge": va > vb or (ia and ib and va == vb)}[op]
        return NotImplemented

    def _fdiv_event(self, st, b, where="f64 division"):
        if is_conc(b):
            if b == 0:
                if self.mode == "float":
                    return
                raise Unsupported("float division by concrete zero (result is inf/NaN: outside the real model)")
            return
        st.events = st.events + (("div_nonzero", to_z3(b) != 0, where),)

    def binop(self, st, op, a, b, dest_ty=None):
        if isinstance(a, Ptr) or isinstance(b, Ptr):
            if op in ("Eq", "Ne") and isinstance(a, Ptr) and isinstance(b, Ptr):
                r = a.key() == b.key()
                return r if op == "Eq" else not r
            raise Unsupported("pointer arithmetic " + op)
        if isinstance(a, Enum) and isinstance(b, Enum) and op in ("Eq", "Ne"):
            r = a.variant == b.variant
            return r if op == "Eq" else not r
        if self._is_inf(a) or self._is_inf(b):
            r = self._inf_binop(st, op, a, b)
            if r is not NotImplemented:
                return r
        nan_a = isinstance(a, Opaque) and a.tag == "NaN"
        nan_b = isinstance(b, Opaque) and b.tag == "NaN"
        if (nan_a or nan_b) and (nan_a or is_scalar(a)) and (nan_b or is_scalar(b)):
            # IEEE: NaN propagates through arithmetic, every ordered comparison with NaN is false
            if op in ("Add", "Sub", "Mul", "Div", "Rem"):
                return Opaque("NaN")
            if op in ("Eq", "Lt", "Le", "Gt", "Ge"):
                return False
            if op == "Ne":
                return True
        if not (is_scalar(a) and is_scalar(b)):
            raise Unsupported(f"binop {op} on {a!r}, {b!r}")
        conc = is_conc(a) and is_conc(b)
        b_orig = b
        if not conc:
            a, b = to_z3(a), to_z3(b)
        if op in ("Add", "AddUnchecked"):
            r = a + b
        elif op in ("Sub", "SubUnchecked"):
            r = a - b
        elif op in ("Mul", "MulUnchecked"):
            r = a * b
        elif op == "Div":
            if is_real(a) or is_real(b):
                if is_conc(b_orig) and b_orig == 0:
                    # IEEE: x / 0 is +-inf by the sign of x (NaN for 0 / 0); the sign must be decided by the path condition
                    sgn = self.sign_of(st, a)
                    return (float("nan") if self.mode == "float" else Opaque("NaN")) if sgn == 0 else self._mk_inf(sgn)
                self._fdiv_event(st, b)
                r = a / b
            else:
                if conc:
                    if b == 0:
                        raise PanicExc("attempt to divide by zero")
                    r = abs(a) // abs(b) * (1 if (a >= 0) == (b >= 0) else -1)
                else:
                    st.events = st.events + (("int_div_nonzero", b != 0, "integer division"),)
                    r = a / b
        elif op == "Rem":
            if is_real(a) or is_real(b):
                if conc:
                    import math
                    if self.mode == "float":
                        r = math.fmod(a, b)
                    else:
                        q = int(a / b)
                        r = a - q * b
                elif is_conc(b_orig) and b_orig > 0:
                    # Rust `%` on floats is fmod (sign of the dividend): a = q*b + r with integer q,
                    # 0 <= r < b for a >= 0 and -b < r <= 0 for a < 0
                    q = self.fresh("fmod_q", "int")
                    r = self.fresh("fmod_r")
                    bz = to_z3(b)
                    st.define(z3.And(a == z3.ToReal(q) * bz + r, z3.If(a >= 0, z3.And(r >= 0, r < bz), z3.And(r <= 0, r > -bz))))
                    # consequences of the definition for small quotients, stated explicitly to spare the solver the mixed
                    # integer / nonlinear reasoning
                    st.define(z3.And(z3.Implies(z3.And(a >= 0, a < bz), r == a), z3.Implies(z3.And(a >= bz, a < 2 * bz), r == a - bz),
                                     z3.Implies(z3.And(a < 0, a > -bz), r == a), z3.Implies(z3.And(a <= -bz, a > -2 * bz), r == a + bz)))
                    return r
                else:
                    raise Unsupported("symbolic float remainder by a symbolic modulus")
            else:
                if conc:
                    if b == 0:
                        raise PanicExc("attempt to calculate the remainder with a divisor of zero")
                    r = abs(a) % abs(b) * (1 if a >= 0 else -1)
                else:
                    st.events = st.events + (("int_div_nonzero", b != 0, "integer remainder"),)
                    r = a % b
        elif op == "Eq":
            r = a == b
        elif op == "Ne":
            r = a != b
        elif op == "Lt":
            r = a < b
        elif op == "Le":
            r = a <= b
        elif op == "Gt":
            r = a > b
        elif op == "Ge":
            r = a >= b
        elif op in ("BitAnd", "BitOr", "BitXor"):
            if is_bool(a) and is_bool(b):
                if conc:
                    r = {"BitAnd": a and b, "BitOr": a or b, "BitXor": a != b}[op]
                else:
                    r = {"BitAnd": z3.And, "BitOr": z3.Or, "BitXor": z3.Xor}[op](a, b)
            elif conc:
                r = {"BitAnd": a & b, "BitOr": a | b, "BitXor": a ^ b}[op]
            else:
                raise Unsupported("symbolic bitwise op")
        elif op == "Cmp":
            if conc:
                r = Enum("Ordering", 0 if a < b else (1 if a == b else 2), ())
            else:
                raise Unsupported("symbolic Cmp")
            return r
        elif op in ("AddWithOverflow", "SubWithOverflow", "MulWithOverflow"):
            base = {"AddWithOverflow": a + b, "SubWithOverflow": a - b, "MulWithOverflow": a * b}[op]
            return Struct("()", [base, False])
        else:
            raise Unsupported("binop " + op)
        if conc and isinstance(r, int) and not isinstance(r, bool) and dest_ty in INT_RANGES:
            lo, hi = INT_RANGES[dest_ty]
            if r < lo or r > hi:
                raise PanicExc(f"arithmetic overflow: {op} -> {r} does not fit {dest_ty}")
        if not conc and op in ("Add", "Sub", "Mul") and dest_ty in INT_RANGES and is_int(r):
            lo, hi = INT_RANGES[dest_ty]
            st.events = st.events + (("int_no_overflow", z3.And(r >= lo, r <= hi), f"{op} on {dest_ty}"),)
        if conc and isinstance(r, float) and self.mode == "real":
            r = Fraction(r)
        return r

    def unop(self, st, op, a):
        if op == "PtrMetadata":
            if isinstance(a, Ptr):
                if a.win is not None:
                    return a.win[1]
                v = self.load_ptr(st, a)
                if isinstance(v, Seq):
                    return len(v.elems)
                raise Unsupported("PtrMetadata of non-slice")
            raise Unsupported("PtrMetadata of non-pointer")
        if op == "Not":
            if isinstance(a, bool):
                return not a
            if is_z3(a) and is_bool(a):
                return z3.Not(a)
            raise Unsupported("Not on non-bool")
        if op == "Neg":
            if isinstance(a, Opaque) and a.tag == "NaN":
                return a
            if isinstance(a, Opaque) and a.tag in ("+inf", "-inf"):
                return Opaque("-inf" if a.tag == "+inf" else "+inf")
            return -a
        raise Unsupported("unop " + op)

    def cast(self, st, a, ty, kind):
        if kind.startswith("IntToFloat"):
            if isinstance(a, bool):
                a = int(a)
            if isinstance(a, int):
                return self.flt(a) if self.mode == "float" else Fraction(a)
            return z3.ToReal(a)
        if kind.startswith("IntToInt"):
            if isinstance(a, bool):
                return int(a)
            if isinstance(a, Enum):
                return self.intr.enum_discr_value(self, a)
            if isinstance(a, int) and ty in INT_RANGES:
                lo, hi = INT_RANGES[ty]
                if a < lo or a > hi:
                    a = (a - lo) % (hi - lo + 1) + lo
            return a
        if kind.startswith("FloatToInt"):
            if is_conc(a):
                import math
                if self.mode == "float" and (a != a):
                    return 0
                v = int(a)  # trunc toward zero
                if ty in INT_RANGES:
                    lo, hi = INT_RANGES[ty]
                    v = max(lo, min(hi, v))
                return v
            # trunc toward zero: fresh integer q with |q| <= |a| < |q| + 1 and the sign of a; saturation is a side condition
            q = self.fresh("f2i", "int")
            qa = z3.ToReal(q)
            st.define(z3.If(a >= 0, z3.And(qa <= a, a < qa + 1), z3.And(qa >= a, a > qa - 1)))
            if ty in INT_RANGES:
                lo, hi = INT_RANGES[ty]
                st.events = st.events + (("float_to_int_in_range", z3.And(a > lo - 1, a < hi + 1), f"as {ty}"),)
            return q
        if kind.startswith("FloatToFloat"):
            return a
        if kind.startswith("PointerCoercion") or kind.startswith("PtrToPtr") or kind.startswith("Transmute") and isinstance(a, Ptr):
            return a
        if kind.startswith("Transmute") and isinstance(a, Struct) and a.ty in ("NonNull", "Unique") and a.fields:
            # Box<T> internals: `(box.0: Unique<T>).0: NonNull<T>` cast to a raw pointer
            inner = a.fields[0]
            while isinstance(inner, Struct) and inner.ty in ("NonNull", "Unique"):
                inner = inner.fields[0]
            if isinstance(inner, Ptr):
                return inner
        raise Unsupported(f"cast {kind} to {ty}")

    # ------------------------------------------------------------ merging
    def merge_val(self, c, a, b):
        """value equal to a when c else b; raises Unmergeable"""
        if a is b:
            return a
        if is_scalar(a) and is_scalar(b):
            if is_conc(a) and is_conc(b) and type(a) == type(b) and a == b:
                return a
            if isinstance(a, int) and isinstance(b, int) and not isinstance(a, bool) and not isinstance(b, bool):
                # keep indices / counters concrete: paths that differ in a concrete integer are not merged
                raise Unmergeable()
            za, zb = to_z3(a), to_z3(b)
            if za.sort() != zb.sort():
                if is_bool(za) or is_bool(zb):
                    raise Unmergeable()
                if is_int(za):
                    za = z3.ToReal(za)
                if is_int(zb):
                    zb = z3.ToReal(zb)
            if z3.eq(za, zb):
                return a
            return z3.If(c, za, zb)
        ta, tb = type(a), type(b)
        if ta is not tb:
            raise Unmergeable()
        if ta is Struct:
            if len(a.fields) != len(b.fields):
                raise Unmergeable()
            return Struct(a.ty, [self.merge_val(c, x, y) for x, y in zip(a.fields, b.fields)])
        if ta is Enum:
            if a.variant != b.variant or len(a.fields) != len(b.fields):
                raise Unmergeable()
            return Enum(a.ty, a.variant, [self.merge_val(c, x, y) for x, y in zip(a.fields, b.fields)])
        if ta is Seq:
            if len(a.elems) != len(b.elems):
                raise Unmergeable()
            return Seq([self.merge_val(c, x, y) for x, y in zip(a.elems, b.elems)])
        if ta is Ptr:
            if a.key() == b.key():
                return a
            raise Unmergeable()
        if ta is Opaque:
            return a
        if ta is Closure:
            if a.span != b.span:
                raise Unmergeable()
            return Closure(a.span, [self.merge_val(c, x, y) for x, y in zip(a.fields, b.fields)])
        if ta is IterV:
            if a.kind != b.kind or len(a.d) != len(b.d):
                raise Unmergeable()
            return IterV(a.kind, *[self.merge_val(c, x, y) for x, y in zip(a.d, b.d)])
        if ta is FnItem:
            if a.path == b.path:
                return a
            raise Unmergeable()
        if a is UNINIT or b is UNINIT:
            return UNINIT if (a is UNINIT and b is UNINIT) else (_ for _ in ()).throw(Unmergeable())
        if a == b:
            return a
        raise Unmergeable()

    def merge_states(self, c, sa, sb, base_pc_len):
        if sa.frames.keys() != sb.frames.keys():
            raise Unmergeable()
        frames = {}
        for fid, fa in sa.frames.items():
            fb = sb.frames[fid]
            if fa is fb:
                frames[fid] = fa
                continue
            nf = {}
            for k in fa.keys() | fb.keys():
                va = fa.get(k, UNINIT)
                vb = fb.get(k, UNINIT)
                if va is vb:
                    nf[k] = va
                else:
                    nf[k] = self.merge_val(c, va, vb)  # Unmergeable propagates: the two paths stay separate
            frames[fid] = nf
        heap = {}
        for h in sa.heap.keys() | sb.heap.keys():
            if h in sa.heap and h in sb.heap:
                va, vb = sa.heap[h], sb.heap[h]
                heap[h] = va if va is vb else self.merge_val(c, va, vb)
            else:
                # path-local temporaries (closure cells etc.): nothing on the other path points at them
                heap[h] = sa.heap.get(h, sb.heap.get(h))
        ca = z3.And(*[to_z3(x) for x in sa.pc[base_pc_len:]]) if len(sa.pc) > base_pc_len else z3.BoolVal(True)
        cb = z3.And(*[to_z3(x) for x in sb.pc[base_pc_len:]]) if len(sb.pc) > base_pc_len else z3.BoolVal(True)
        pc = sa.pc[:base_pc_len] + (z3.Or(ca, cb),)
        ida = set(id(e) for e in sa.events)
        idb = set(id(e) for e in sb.events)
        ev = [e for e in sa.events if id(e) in idb]
        ev += [(k, z3.Implies(ca, to_z3(cond)), w) for (k, cond, w) in sa.events if id((k, cond, w)) not in idb and not any(x is cond for (_, x, _) in sb.events)]
        ev += [(k, z3.Implies(cb, to_z3(cond)), w) for (k, cond, w) in sb.events if not any(x is cond for (_, x, _) in sa.events)]
        seen = set()
        defs = []
        for d in tuple(sa.defs) + tuple(sb.defs):
            if id(d) not in seen:
                seen.add(id(d))
                defs.append(d)
        return State(frames, heap, pc, tuple(ev), tuple(defs))

    def merge_outcomes(self, outs, base_pc_len):
        if not self.merge or len(outs) <= 1:
            return outs
        groups = []
        for o in outs:
            placed = False
            for gi, g in enumerate(groups):
                if g.kind != o.kind:
                    continue
                # must share the pc prefix
                if g.st.pc[:base_pc_len] != o.st.pc[:base_pc_len]:
                    continue
                ca = z3.And(*[to_z3(x) for x in g.st.pc[base_pc_len:]]) if len(g.st.pc) > base_pc_len else z3.BoolVal(True)
                try:
                    val = self.merge_val(ca, g.val, o.val) if g.kind == "ret" else g.val
                    st = self.merge_states(ca, g.st, o.st, base_pc_len)
                except Unmergeable:
                    continue
                groups[gi] = Outcome(st, g.kind, val)
                self.stats["merges"] += 1
                placed = True
                break
            if not placed:
                groups.append(o)
        return groups

    # ------------------------------------------------------------ calls
    def _complete_closure_captures(self, body, name, caps):
        """rustc's MIR pretty-printer zips a closure aggregate's operands with the captured *root variables*, so a closure that captures
        several disjoint fields of one variable (`self.a`, `self.b`) is printed with its first operand only.  The operands are the
        consecutively numbered temporaries that follow the printed one; they are recovered here and checked against the capture types
        the closure body declares (`debug x => (*(_1.N: T))`).  Anything that does not match is unsupported, never guessed."""
        if self.closure_index is None:
            self.build_closure_index()
        cname = self.closure_index.get(name)
        if cname is None or not caps:
            return caps
        cb = self.mir.bodies[cname]
        need = {}
        for ln in cb.lines:
            for m in re.finditer(r"\(_1\.(\d+): ([^()]*(?:\([^()]*\))?[^()]*)\)", ln):
                need.setdefault(int(m.group(1)), m.group(2).strip())
        n = (max(need) + 1) if need else 0
        if n <= len(caps):
            return caps
        first = caps[0]
        loc0 = getattr(first[1], "local", None) if isinstance(first, tuple) and len(first) == 2 else None
        if len(caps) != 1 or first[0] not in ("move", "copy") or not loc0 or getattr(first[1], "proj", None):
            raise Unsupported(f"closure aggregate printed with {len(caps)} of {n} captures")
        k0 = int(loc0[1:])
        out = [first]
        for j in range(1, n):
            loc = f"_{k0 + j}"
            ty = body.local_types.get(loc)
            if ty is None or (j in need and re.sub(r"\s+", "", ty) != re.sub(r"\s+", "", need[j])):
                raise Unsupported(f"closure capture {j} of {name}: cannot recover operand ({loc}: {ty} vs {need.get(j)})")
            out.append(("move", mirmod.parse_place(loc)))
        return out

    def build_closure_index(self):
        idx = {}
        for name, b in self.mir.bodies.items():
            if b.kind != "fn" or "{closure#" not in name:
                continue
            m = re.search(r"\(_1: (?:&(?:mut )?)?(\{closure@[^{}]*\})", b.header)
            if m:
                idx[m.group(1)] = name
        self.closure_index = idx

    def call_closure(self, st, f, args):
        """f: Closure | FnItem | Ptr to one; args: list. -> [(st, val)] (panics raise through Outcome list)"""
        fv = f
        fptr = None
        while isinstance(fv, Ptr):
            fptr = fv
            fv = self.load_ptr(st, fv)
        if isinstance(fv, FnItem):
            return self.call_named(st, None, fv.path, args)
        if not isinstance(fv, Closure):
            raise Unsupported(f"call of non-callable {fv!r}")
        if self.closure_index is None:
            self.build_closure_index()
        name = self.closure_index.get(fv.span)
        if name is None:
            raise Unsupported("no body for " + fv.span)
        body = self.mir.bodies[name]
        t1 = body.local_types.get("_1", "")
        if t1.startswith("&"):
            if fptr is None:
                fptr = self.heap_alloc(st, fv)
            a0 = fptr
        else:
            a0 = fv
        return self.exec_body(st, body, [a0] + list(args))

    def call_named(self, st, body, callee, args):
        """-> [Outcome] with state = caller's state (callee frame popped)"""
        self.stats["calls"] += 1
        # closure call sugar
        if re.search(r"as (?:std::ops::|core::ops::)?(?:function::)?Fn(?:Once|Mut)?<", callee) or re.match(r"^(?:core|std)::ops::(?:function::)?Fn(?:Once|Mut)?::call", callee):
            f = args[0]
            tup = args[1]
            return self.call_closure(st, f, list(tup.fields) if isinstance(tup, Struct) else [tup])
        for (rx, fn) in self.ext_stubs:
            if rx.search(callee):
                r = fn(self, st, args)
                if r is not None:
                    self.stats["stub_calls"] = self.stats.get("stub_calls", 0) + 1
                    return [Outcome(s_, "ret", v_) for (s_, v_) in r]
        r = self.intr.dispatch(self, st, body, callee, args)
        if r is not None:
            return r
        name = None
        # `<T as Trait>::m` inside an un-monomorphised generic body: dispatch on the run-time type of the receiver
        mg = re.match(r"^<([A-Z]) as ([\w:]+)(?:<.*>)?>::(\w+)", callee.strip())
        if mg and args:
            v0 = self.deref_all(st, args[0])
            if isinstance(v0, (Struct, Enum)):
                name = self.mir.resolve(f"<{v0.ty} as {mg.group(2)}>::{mg.group(3)}")
                # `impl Trait for X` and `impl Trait for &X` may both exist: pick by the reference depth of the receiver
                depth = 0
                pv = args[0]
                while isinstance(pv, Ptr):
                    depth += 1
                    pv = self.load_ptr(st, pv)
                tr_last = mg.group(2).split("::")[-1]
                cands = [n for (t, n) in self.mir.methods.get((v0.ty, mg.group(3)), []) if t == tr_last]
                if len(cands) > 1:
                    for n in cands:
                        mh = re.search(r"\(_1: ((?:&(?:mut )?)*)", self.mir.bodies[n].header)
                        if mh and mh.group(1).count("&") == depth:
                            name = n
                            break
            elif isinstance(v0, Seq) and v0.ety:
                # Vec<X> / [X]: an impl for Vec<X> if there is one, else the slice impl (what `impl<T> Trait for Vec<T> where [T]: Trait` forwards to)
                if (f"[{v0.ety}]", mg.group(3)) in self.mir.methods:
                    name = self.mir.resolve(f"<[{v0.ety}] as {mg.group(2)}>::{mg.group(3)}")
                else:
                    # no override for this slice type: the trait's provided method
                    tr_last = mg.group(2).split("::")[-1]
                    dflt = [n for (t, n) in self.mir.methods.get((tr_last, mg.group(3)), []) if t is None]
                    name = dflt[0] if dflt else None
        if name is None:
            name = self.mir.resolve(callee)
        if name is None:
            raise Unsupported("call to unmodelled function: " + mirmod.strip_generics(callee)[:160])
        # std's blanket `impl<T: Trait> Trait for &T / &mut T` (AsRef, Borrow, ...) forwards to T's impl: the call site passes
        # a reference to the reference, the resolved body takes the reference itself
        mref = re.match(r"^<&(?:mut )?\s*[\w:]+ as (?:[\w:]*::)?(AsRef|AsMut|Borrow|BorrowMut)<", callee.strip())
        if mref and args and isinstance(args[0], Ptr):
            inner0 = self.load_ptr(st, args[0])
            mh = re.search(r"\(_1: (&(?:mut )?)+", self.mir.bodies[name].header)
            if isinstance(inner0, Ptr) and mh and mh.group(0).count("&") == 1:
                args = [inner0] + list(args[1:])
        if name in self.stubs:
            r = self.stubs[name](self, st, args)
            if r is not None:  # None: the stub declines this call site, run the real body
                self.stats["stub_calls"] = self.stats.get("stub_calls", 0) + 1
                return [Outcome(s, "ret", v) for (s, v) in r]
        return self.exec_body(st, self.mir.bodies[name], args)

    # ------------------------------------------------------------ body execution
    def exec_body(self, st, body, args, fid=None, keep_frame=False):
        self.stats["bodies"].add(body.name)
        if fid is None:
            self.nfid += 1
            fid = self.nfid
        frame = {}
        an = body.args
        if len(an) != len(args):
            # closures called with a tuple of args: spread
            if len(an) == 2 and len(args) > 2:
                args = [args[0], Struct("()", args[1:])]
            elif len(args) == 2 and isinstance(args[1], Struct) and args[1].ty == "()" and len(an) == 1 + len(args[1].fields):
                args = [args[0]] + list(args[1].fields)
            else:
                raise Unsupported(f"arity mismatch calling {body.name}: {len(an)} vs {len(args)}")
        for n, v in zip(an, args):
            frame[n] = v
        st.frames[fid] = frame
        base_pc_len = len(st.pc)
        work = [(st, "bb0", {}, 0)]
        outs = []
        types = body.local_types
        while work:
            item = work.pop()
            st, bb, visits = item[0], item[1], item[2]
            start_at = item[3] if len(item) > 3 else 0
            while True:
                if start_at == 0:
                    c = visits.get(bb, 0) + 1
                    if c > self.loop_bound:
                        raise Inconclusive(f"loop bound {self.loop_bound} exceeded in {body.name} at {bb}")
                    visits[bb] = c
                stmts = body.stmts(bb)
                nxt = None
                try:
                    for s_i, s in enumerate(stmts):
                        if s_i < start_at:
                            continue
                        self.stats["stmts"] += 1
                        k = s[0]
                        if k == "assign":
                            dest_ty = types.get(s[1].local) if not s[1].proj else None
                            v = self.eval_rvalue(st, fid, body, s[2], dest_ty)
                            self.write_place(st, fid, s[1], v)
                        elif k == "nop":
                            pass
                        elif k == "setdisc":
                            v = self.read_place(st, fid, s[1])
                            if isinstance(v, Enum):
                                self.write_place(st, fid, s[1], Enum(v.ty, s[2], v.fields))
                            else:
                                raise Unsupported("SetDiscriminant on non-enum")
                        elif k == "goto":
                            nxt = s[1]
                        elif k == "drop":
                            nxt = s[2]
                        elif k == "return":
                            rv = st.frames[fid].get("_0", UNIT)
                            if not keep_frame:
                                del st.frames[fid]
                            outs.append(Outcome(st, "ret", rv))
                            self._count_path()
                            nxt = None
                        elif k == "unreachable":
                            raise PanicExc("reached `unreachable` (undefined behaviour)")
                        elif k == "resume":
                            raise Unsupported("resume")
                        elif k == "switch":
                            v = self.eval_operand(st, fid, body, s[1])
                            self._cur_body = body.name[-70:]; nxt = self._switch(st, v, s[2], work, visits)
                        elif k == "assert":
                            v = self.eval_operand(st, fid, body, s[1])
                            if s[2]:
                                v = self.unop(st, "Not", v)
                            t = self.truth(st, v)
                            if t is True:
                                nxt = s[4]
                            elif t is False:
                                raise PanicExc("assert failed: " + s[3][:80])
                            else:
                                ok = self.feasible(st, v)
                                bad = self.feasible(st, z3.Not(v))
                                if bad:
                                    s2 = st.fork()
                                    s2.assume(z3.Not(v))
                                    del s2.frames[fid]
                                    outs.append(Outcome(s2, "panic", "assert failed: " + s[3][:80]))
                                if ok:
                                    st.assume(v)
                                    nxt = s[4]
                                else:
                                    nxt = None
                        elif k == "call":
                            argv = [self.eval_operand(st, fid, body, a) for a in s[3]]
                            if self.trace:
                                print("  " * len(st.frames), "call", mirmod.strip_generics(s[2])[:100])
                            res = self.call_named(st, body, s[2], argv)
                            res = [o for o in res]
                            first = True
                            cont = []
                            for o in res:
                                if o.kind == "panic":
                                    if fid in o.st.frames and not keep_frame:
                                        del o.st.frames[fid]
                                    outs.append(o)
                                    continue
                                if s[4] is None:
                                    continue  # diverging call returned?!
                                dest_ty = None
                                self.write_place(o.st, fid, s[1], o.val)
                                cont.append(o.st)
                            if not cont:
                                nxt = None
                            else:
                                st = cont[0]
                                for other in cont[1:]:
                                    work.append((other, s[4], dict(visits)))
                                nxt = s[4]
                        else:
                            raise Unsupported("stmt kind " + k)
                except SymbolicIndex as si:
                    # case split on the value of a symbolic index: re-run this statement with the index made concrete
                    seq = self.load(st, si.root, si.path)
                    nel = si.win[1] if si.win else (len(seq.elems) if isinstance(seq, Seq) else 0)
                    if si.local is None:
                        raise Unsupported("symbolic index without a named local")
                    for kk in range(nel):
                        if self.feasible(st, si.idx == kk):
                            s2 = st.fork()
                            s2.assume(si.idx == kk)
                            s2.frames[fid][si.local] = kk
                            work.append((s2, bb, dict(visits), s_i))
                    nxt = None
                except Unsupported as u:
                    if "[in " not in str(u):
                        raise Unsupported(f"{u} [in {body.name[-90:]} {bb}]")
                    raise
                except PanicExc as p:
                    if fid in st.frames and not keep_frame:
                        del st.frames[fid]
                    outs.append(Outcome(st, "panic", p.msg))
                    self._count_path()
                    nxt = None
                start_at = 0
                if nxt is None:
                    break
                bb = nxt
        return self.merge_outcomes(outs, base_pc_len)

    def _count_path(self):
        self.stats["paths"] += 1
        if self.stats["paths"] > self.max_paths:
            raise Inconclusive(f"path budget {self.max_paths} exceeded")

    def _switch(self, st, v, targets, work, visits):
        if isinstance(v, Enum):
            v = self.intr.enum_discr_value(self, v)
        if isinstance(v, bool):
            v = int(v)
        if isinstance(v, int):
            for k, bb in targets.items():
                if k == "otherwise":
                    continue
                kv = _swval(k)
                # negative discriminants (e.g. Ordering::Less = -1i8) are printed as their unsigned bit pattern
                if kv == v or (v < 0 and kv in (v + 2**8, v + 2**16, v + 2**32, v + 2**64)):
                    return bb
            if "otherwise" in targets:
                return targets["otherwise"]
            raise PanicExc("switchInt without matching target")
        if not is_z3(v):
            raise Unsupported(f"switch on {v!r}")
        conds = []
        if is_bool(v):
            for k, bb in targets.items():
                if k == "otherwise":
                    continue
                conds.append((bb, z3.Not(v) if _swval(k) == 0 else v))
            if "otherwise" in targets:
                conds.append((targets["otherwise"], v if any(_swval(k) == 0 for k in targets if k != "otherwise") else z3.Not(v)))
        else:
            neg = []
            for k, bb in targets.items():
                if k == "otherwise":
                    continue
                conds.append((bb, v == _swval(k)))
                neg.append(v != _swval(k))
            if "otherwise" in targets:
                conds.append((targets["otherwise"], z3.And(*neg)))
        feas = []
        for bb, c in conds:
            t = self.truth(st, c)
            if t is False:
                continue
            if t is True:
                return bb
            if self.feasible(st, c):
                feas.append((bb, c))
        if not feas:
            return None
        if len(feas) > 1 and DEBUG_FORKS is not None:
            DEBUG_FORKS[self._cur_body] = DEBUG_FORKS.get(self._cur_body, 0) + 1
        for bb, c in feas[1:]:
            s2 = st.fork()
            s2.assume(c)
            work.append((s2, bb, dict(visits)))
        st.assume(feas[0][1])
        return feas[0][0]

    # ------------------------------------------------------------ harness API
    def run(self, fn_pattern, st, args):
        name = self.mir.find_fn(fn_pattern)
        return self.exec_body(st, self.mir.bodies[name], args)


def _swval(k):
    return int(k)


class Unmergeable(Exception):
    pass


class SymbolicIndex(Exception):
    def __init__(self, root, path, win, idx, local=None):
        self.root, self.path, self.win, self.idx, self.local = root, path, win, idx, local


UNINIT_POISON = UNINIT
