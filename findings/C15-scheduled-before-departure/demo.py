#!/opt/veriftools/pyvenv/bin/python3
"""End-to-end demonstration on the real build: make_est_times on a valid 4-link network with a slower passing siding returns nodes
scheduled before the train's departure.  Needs the native runner (/verif/bin/setup builds it)."""
import json, os, subprocess, sys
VERIF = os.environ.get("NREL_ALTRIOS_VERIF_DIR", "/verif")
L = lambda **k: dict(dict(prev=0, prev_alt=0, next=0, next_alt=0, length=4000, speed=20, flip=0), **k)
d = dict(links=[L(next=2, next_alt=3), L(prev=1, next=4), L(prev=1, next=4, speed=10), L(prev=2, prev_alt=3)], origs=[1], dests=[4], t0=7.5)
req = {"recv_ty": "W_EstScenario", "recv": d, "calls": [{"fn": "scenario", "args": []}]}
p = subprocess.run([os.path.join(VERIF, "build/target-runner/debug/verif-runner")], input=json.dumps(req) + "\n", capture_output=True, text=True)
r = json.loads(p.stdout.splitlines()[0])
print("make_est_times:", r["kind"], "network valid:", r["network_valid"] is None)
early = [(i, e["link_event"], e["time_sched"]) for i, e in enumerate(r["post"]) if e["time_sched"] < d["t0"]]
for x in early:
    print("node %d %s scheduled at %.1f s, departure is %.1f s" % (x[0], x[1], x[2], d["t0"]))
sys.exit(1 if early else 0)
