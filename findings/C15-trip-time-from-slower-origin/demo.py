#!/opt/veriftools/pyvenv/bin/python3
"""End-to-end demonstration on the real build: with two origin links of different speed, make_est_times reports the slower origin's
running time as the trip time (and schedules the first node before the departure) when the slower origin is listed second; with
the speeds swapped the result is right.  Needs the native runner (/verif/bin/setup builds it)."""
import json, os, subprocess, sys
VERIF = os.environ.get("NREL_ALTRIOS_VERIF_DIR", "/verif")
L = lambda **k: dict(dict(prev=0, prev_alt=0, next=0, next_alt=0, length=4000, speed=20, flip=0), **k)
bad = False
for name, (s1, s2) in (("slower origin second", (20, 10)), ("slower origin first", (10, 20))):
    d = dict(links=[L(next=3, speed=s1), L(next=3, speed=s2), L(prev=1, prev_alt=2, next=4), L(prev=3, next=5), L(prev=4)], origs=[1, 2], dests=[5], t0=7.5)
    req = {"recv_ty": "W_EstScenario", "recv": d, "calls": [{"fn": "scenario", "args": []}]}
    p = subprocess.run([os.path.join(VERIF, "build/target-runner/debug/verif-runner")], input=json.dumps(req) + "\n", capture_output=True, text=True)
    r = json.loads(p.stdout.splitlines()[0])
    g, pre = r["post"], r["pre"]
    # shortest start-to-end walk over the graph as construction built it
    best = [None]
    def go(i, acc):
        if i == len(pre) - 1:
            best[0] = acc if best[0] is None else min(best[0], acc); return
        e = pre[i]
        if e["idx_next"]: go(e["idx_next"], acc + e["time_to_next"])
        if e["idx_next_alt"]: go(e["idx_next_alt"], acc)
    go(0, 0.0)
    trip = g[-1]["time_sched"] - g[0]["time_sched"]
    print(f"{name}: make_est_times {r['kind']}, network valid {r['network_valid'] is None}; first node at {g[0]['time_sched']:.1f} s (departure 7.5 s), reported trip {trip:.1f} s, shortest route {best[0]:.1f} s")
    bad = bad or abs(trip - best[0]) > 1e-6
sys.exit(1 if bad else 0)
